package main

import (
	"go/token"
	"go/types"
	"strings"

	"golang.org/x/tools/go/ssa"
)

// Rules added during seeding round 7.

// ---------------------------------------------------------------------------------------------
// ownership provenance of a result

// notOwnedWhy: v is supposed to be a value this call owns exclusively (it is about to be wiped, or to be used as key
// material and wiped later). Returns "" if v is the result of a call made in this invocation whose callee hands out a
// fresh value: an interface method (KMS / AEAD / client contracts), a function outside the repository, or a repository
// function all of whose returns are themselves owned. Anything read from a field of a heap object, a map, a channel,
// a sync.Once-style memo or a captured variable assigned elsewhere is shared with whoever else can reach it.
func notOwnedWhy(v ssa.Value, depth int, seen map[ssa.Value]bool) string {
	v = resolve(v)
	if depth > 6 {
		return ""
	}
	if seen[v] {
		return ""
	}
	seen[v] = true
	if isNilConst(v) {
		return ""
	}
	switch x := v.(type) {
	case *ssa.Phi:
		for _, e := range x.Edges {
			if why := notOwnedWhy(e, depth+1, seen); why != "" {
				return why
			}
		}
		return ""
	case *ssa.Extract:
		if _, isRecv := x.Tuple.(*ssa.UnOp); isRecv {
			return "a value received from a channel"
		}
		if lk, isL := x.Tuple.(*ssa.Lookup); isL {
			return "a map lookup (" + describeOperand(lk.X) + ")"
		}
		if cv, isC := x.Tuple.(*ssa.Call); isC {
			return notOwnedCall(cv, x.Index, depth, seen)
		}
		if ta, isTA := x.Tuple.(*ssa.TypeAssert); isTA {
			return notOwnedWhy(ta.X, depth+1, seen)
		}
	case *ssa.Call:
		return notOwnedCall(x, 0, depth, seen)
	case *ssa.Alloc, *ssa.MakeSlice, *ssa.Slice:
		if sl, isS := x.(*ssa.Slice); isS {
			return notOwnedWhy(sl.X, depth+1, seen)
		}
		return ""
	case *ssa.UnOp:
		switch x.Op {
		case token.ARROW:
			return "a value received from a channel"
		case token.MUL:
			switch a := x.X.(type) {
			case *ssa.FieldAddr:
				if la, isLocal := a.X.(*ssa.Alloc); isLocal {
					for _, sv := range localStores(la) {
						if why := notOwnedWhy(sv, depth+1, seen); why != "" {
							return why
						}
					}
					return ""
				}
				return "the field " + trimAddr(accessPath(a)) + " of an object other callers can reach"
			case *ssa.Global:
				return "the package-level variable " + a.Name()
			case *ssa.FreeVar:
				return "a captured variable"
			}
		}
	case *ssa.Lookup:
		return "a map lookup (" + describeOperand(x.X) + ")"
	case *ssa.Parameter:
		return "" // ownership of a parameter is the caller's obligation
	case *ssa.TypeAssert:
		return notOwnedWhy(x.X, depth+1, seen)
	case *ssa.MakeInterface:
		return notOwnedWhy(x.X, depth+1, seen)
	case *ssa.ChangeInterface:
		return notOwnedWhy(x.X, depth+1, seen)
	}
	return ""
}

func notOwnedCall(cv *ssa.Call, idx int, depth int, seen map[ssa.Value]bool) string {
	if cv.Call.IsInvoke() {
		return ""
	}
	g := staticCallee(cv)
	if g == nil {
		// a call through a function value: a memoising wrapper (sync.OnceValue(s)) hands every caller the same result
		if src, ok := resolve(cv.Call.Value).(*ssa.Call); ok {
			if h := staticCallee(src); h != nil && h.Pkg != nil && h.Pkg.Pkg.Path() == "sync" && strings.HasPrefix(h.Name(), "OnceValue") {
				return "the result of a sync." + h.Name() + " function (every caller gets the same value)"
			}
		}
		if why := notOwnedWhy(cv.Call.Value, depth+1, seen); why != "" {
			return "a call through a function value read from " + why
		}
		return ""
	}
	// containers that exist to share values between callers
	if g.Signature.Recv() != nil {
		rt := g.Signature.Recv().Type().String()
		for _, shared := range []string{"sync.Map", "sync.Pool", "sync/atomic.Value", "sync/atomic.Pointer"} {
			if strings.Contains(rt, shared) && (strings.HasPrefix(g.Name(), "Load") || g.Name() == "Get" || g.Name() == "Swap") {
				return "a value taken out of a " + shared
			}
		}
	}
	if g.Blocks == nil || g.Pkg == nil || !strings.HasPrefix(g.Pkg.Pkg.Path(), "github.com/godaddy/asherah/") {
		return ""
	}
	for _, r := range returnsOf(g) {
		if idx >= len(r.Results) {
			continue
		}
		if why := notOwnedWhy(returnedValue(r, idx), depth+1, seen); why != "" {
			return why + " (returned by " + g.Name() + ")"
		}
	}
	return ""
}

// ruleC10WipedBuffersAreOwned: internal.NewCryptoKey wipes the plaintext it is given, and the KMS plugins wipe the data
// key once the envelope is built. That is only correct if the wiping call is the sole owner of the buffer: a buffer
// shared between concurrent callers (de-duplicated loads), or kept for the next call (a cache of the KMS answer), is
// zeroed under its other users — who then build a system key, or wrap one, from all-zero bytes.
func ruleC10WipedBuffersAreOwned(c *Ctx) {
	u := c.U1
	c.rule("C10.wiped-buffers-are-owned", "the plaintext handed to internal.NewCryptoKey, and the data-key output returned by generateDataKey in both KMS plugins, is the result of a call made in this invocation whose callee hands out a fresh value — never read from a field, map, channel, memo or shared in-flight call", 5)
	nck := u.Func(pkgInt, "NewCryptoKey")
	n := 0
	for _, f := range u.RepoFuncs {
		root := rootFunc(f)
		if root.Pkg == nil || !strings.HasPrefix(root.Pkg.Pkg.Path(), modApp) || strings.Contains(root.Pkg.Pkg.Path(), "/mocks") || f.Blocks == nil {
			continue
		}
		allInstrs(f, func(i ssa.Instruction) {
			if nck == nil || staticCallee(i) != nck {
				return
			}
			n++
			c.CallSites++
			c.FuncsAnalysed[shortName(f)] = true
			why := notOwnedWhy(callOf(i).Args[3], 0, map[ssa.Value]bool{})
			c.check(why == "", trimPkgDirs(shortName(f))+"/NewCryptoKey-plaintext", u.ipos(i), "the wiped plaintext is this call's own", "the plaintext handed to NewCryptoKey (which wipes it) is "+why+": another caller holding the same bytes builds its key from a buffer that has been zeroed — a system key of all zeroes that then wraps intermediate keys, or records nobody else can decrypt")
		})
		if (root.Pkg.Pkg.Path() == pkgKmsV1 || root.Pkg.Pkg.Path() == pkgKmsV2) && f.Name() == "generateDataKey" {
			for _, r := range returnsOf(f) {
				if len(r.Results) == 0 || isNilValue(returnedValue(r, 0)) {
					continue
				}
				n++
				c.CallSites++
				c.FuncsAnalysed[shortName(f)] = true
				why := notOwnedWhy(returnedValue(r, 0), 0, map[ssa.Value]bool{})
				c.check(why == "", trimPkgDirs(shortName(f))+"/data-key", u.ipos(r), "fresh KMS answer", "generateDataKey returns "+why+" instead of the answer of a KMS call made for this wrap: EncryptKey wipes the data key when it is done, so the next system key is sealed under an all-zero (publicly known) key")
			}
		}
	}
	if n == 0 {
		c.bad("NewCryptoKey/plaintext", "", "no NewCryptoKey call found")
	}
}

// ---------------------------------------------------------------------------------------------
// C01.dependencies-not-closed

// ruleC01DependenciesNotClosed: KMS, Metastore, AEAD and SecretFactory are handed to the factory by the application
// and may be shared with other factories. The SDK never closes them (whatever optional Close method they may have).
func ruleC01DependenciesNotClosed(c *Ctx) {
	u := c.U1
	c.rule("C01.dependencies-not-closed", "no function of package appencryption calls a method named Close (directly or after a type assertion / interface conversion) on a value read from the caller-supplied dependency fields KMS, Metastore, Crypto or SecretFactory", 1)
	dep := map[string]bool{"KMS": true, "Metastore": true, "Crypto": true, "SecretFactory": true}
	var fromDep func(v ssa.Value, depth int) string
	fromDep = func(v ssa.Value, depth int) string {
		if depth > 6 {
			return ""
		}
		switch x := v.(type) {
		case *ssa.TypeAssert:
			return fromDep(x.X, depth+1)
		case *ssa.Extract:
			if ta, ok := x.Tuple.(*ssa.TypeAssert); ok {
				return fromDep(ta.X, depth+1)
			}
		case *ssa.ChangeInterface:
			return fromDep(x.X, depth+1)
		case *ssa.MakeInterface:
			return fromDep(x.X, depth+1)
		case *ssa.Phi:
			for _, e := range x.Edges {
				if s := fromDep(e, depth+1); s != "" {
					return s
				}
			}
		case *ssa.UnOp:
			if x.Op == token.MUL {
				if fa, ok := x.X.(*ssa.FieldAddr); ok && dep[fieldName(fa.X.Type(), fa.Field)] {
					return fieldName(fa.X.Type(), fa.Field)
				}
				if a, ok := x.X.(*ssa.Alloc); ok {
					for _, sv := range localStores(a) {
						if s := fromDep(sv, depth+1); s != "" {
							return s
						}
					}
				}
				// an element of a local slice/array literal: any value stored into that literal
				if ia, ok := x.X.(*ssa.IndexAddr); ok {
					base := ia.X
					if sl, isS := base.(*ssa.Slice); isS {
						base = sl.X
					}
					if arr, isA := base.(*ssa.Alloc); isA {
						for _, r := range *arr.Referrers() {
							if ia2, isIA := r.(*ssa.IndexAddr); isIA {
								for _, r2 := range *ia2.Referrers() {
									if st, isSt := r2.(*ssa.Store); isSt && st.Addr == ssa.Value(ia2) {
										if s := fromDep(st.Val, depth+1); s != "" {
											return s
										}
									}
								}
							}
						}
					}
				}
			}
		}
		return ""
	}
	n := 0
	for _, f := range u.RepoFuncs {
		root := rootFunc(f)
		if root.Pkg == nil || root.Pkg.Pkg.Path() != pkgApp || f.Blocks == nil {
			continue
		}
		allInstrs(f, func(i ssa.Instruction) {
			cc := callOf(i)
			if cc == nil {
				return
			}
			var recv ssa.Value
			if cc.IsInvoke() && cc.Method.Name() == "Close" {
				recv = cc.Value
			} else if g := staticCallee(i); g != nil && g.Name() == "Close" && g.Signature.Recv() != nil && len(cc.Args) > 0 {
				recv = cc.Args[0]
			}
			if recv == nil {
				return
			}
			n++
			if d := fromDep(recv, 0); d != "" {
				c.CallSites++
				c.bad(trimPkgDirs(shortName(f))+"/Close of "+d, u.ipos(i), "the SDK closes the caller-supplied "+d+": the application (or another SessionFactory built over the same object) is still using it — after one factory is closed, every other one fails to decrypt what was encrypted before")
			}
		})
	}
	c.check(n > 0, "appencryption/Close-calls", "", "Close calls scanned; none on a caller-supplied dependency", "no Close call found at all in package appencryption")
}

// ---------------------------------------------------------------------------------------------
// C02.acquire-release-paired

// ruleC02AcquireReleasePaired: a counted resource taken with a method named acquire… (a semaphore slot, a token) is
// given back with its release… counterpart on every path to return — in particular on the error returns between the
// two. A slot leaked per failed call exhausts the limiter after a few faults and every later operation blocks although
// the metastore and the KMS have long recovered.
func ruleC02AcquireReleasePaired(c *Ctx) {
	u := c.U1
	c.rule("C02.acquire-release-paired", "in the SDK, after every call of a method or function named acquire<X>, every path to return of the calling function passes release<X> (directly or deferred) — expected count on the pinned tree: none; positive example in the self-test fixtures", 0)
	n := 0
	for _, f := range u.RepoFuncs {
		root := rootFunc(f)
		if root.Pkg == nil || !strings.HasPrefix(root.Pkg.Pkg.Path(), modApp) || f.Blocks == nil {
			continue
		}
		for _, leak := range unreleasedAcquires(f) {
			n++
			c.CallSites++
			c.bad(trimPkgDirs(shortName(f))+"/"+calleeLabel(leak.Acquire), u.ipos(leak.Acquire), "a path from this acquire reaches return without the matching release (e.g. an early error return): each such failure leaks one slot, and once the limiter is exhausted every operation blocks for ever although its dependencies are healthy again", u.tracePositions(leak.Trace)...)
		}
	}
	c.ok("sdk/acquire-release", "", "every acquire… is followed by its release… on all paths")
}

type acquireLeak struct {
	Acquire ssa.Instruction
	Trace   []ssa.Instruction
}

func pairName(i ssa.Instruction) string {
	cc := callOf(i)
	if cc == nil {
		return ""
	}
	if cc.IsInvoke() {
		return cc.Method.Name()
	}
	if g := staticCallee(i); g != nil {
		return g.Name()
	}
	return ""
}

func unreleasedAcquires(f *ssa.Function) []acquireLeak {
	var out []acquireLeak
	allInstrs(f, func(i ssa.Instruction) {
		if _, isCall := i.(*ssa.Call); !isCall {
			return
		}
		nm := pairName(i)
		if !strings.HasPrefix(strings.ToLower(nm), "acquire") || len(nm) <= len("acquire") {
			return
		}
		want := strings.ToLower("release" + nm[len("acquire"):])
		// a deferred release registered before or right after the acquire covers every exit
		deferred := false
		allInstrs(f, func(j ssa.Instruction) {
			if d, isD := j.(*ssa.Defer); isD && strings.ToLower(pairName(d)) == want {
				deferred = true
			}
			if d, isD := j.(*ssa.Defer); isD {
				if mc, isMC := d.Call.Value.(*ssa.MakeClosure); isMC {
					if fn, isF := mc.Fn.(*ssa.Function); isF && containsInstr(fn, func(k ssa.Instruction) bool { return strings.ToLower(pairName(k)) == want }) {
						deferred = true
					}
				}
			}
		})
		if deferred {
			return
		}
		// the acquire may itself fail (returns an error / bool): its failure edge owes nothing
		e := errOfCall(i)
		ok, tr := mustPass(i.Block(), indexOf(i)+1, func(j ssa.Instruction) bool { return strings.ToLower(pairName(j)) == want }, func(from, to *ssa.BasicBlock) bool {
			if e == nil {
				return false
			}
			for _, fct := range edgeFacts(from, to) {
				if x, isNil, isT := nilTest(fct); isT && !isNil && strip(x) == e {
					return true
				}
			}
			return false
		})
		if !ok {
			out = append(out, acquireLeak{i, tr})
		}
	})
	return out
}

// ---------------------------------------------------------------------------------------------
// C03.cipher-built-from-this-key

// ruleC03CipherBuiltFromThisKey: every Encrypt/Decrypt of the AES-256-GCM AEAD seals/opens with a cipher constructed in
// that call from the key it was given: the cipher factory installed by NewAES256GCM is a plain function whose every
// success return is cipher.NewGCM(aes.NewCipher(<its key parameter>)). A factory that remembers a cipher (last-key
// memo, pool, cache keyed by a digest) can hand one caller another caller's cipher: payloads end up sealed under the
// wrong key although every argument looks right.
func ruleC03CipherBuiltFromThisKey(c *Ctx) {
	u := c.U1
	c.rule("C03.cipher-built-from-this-key", "NewAES256GCM wraps a plain function (no closure, no stored state) whose every non-nil AEAD result is cipher.NewGCM(<block>) with <block> the result of aes.NewCipher(<the function's own key parameter>) made in the same call", 1)
	pkgAead := modApp + "/pkg/crypto/aead"
	ctor := u.Func(pkgAead, "NewAES256GCM")
	if ctor == nil {
		c.unresolved("NewAES256GCM", "function")
		return
	}
	c.FuncsAnalysed[shortName(ctor)] = true
	n := 0
	for _, r := range returnsOf(ctor) {
		n++
		c.CallSites++
		v := returnedValue(r, 0)
		for k := 0; k < 4; k++ {
			switch x := v.(type) {
			case *ssa.MakeInterface:
				v = x.X
				continue
			case *ssa.ChangeType:
				v = x.X
				continue
			}
			break
		}
		fn, isFn := v.(*ssa.Function)
		if !isFn || fn.Blocks == nil || len(fn.FreeVars) > 0 {
			c.bad("aead.NewAES256GCM/factory", u.ipos(r), "the cipher factory is not a plain function ("+describeOperand(v)+"): a wrapper or closure around it can keep ciphers between calls")
			continue
		}
		c.FuncsAnalysed[shortName(fn)] = true
		bad := ""
		for _, fr := range returnsOf(fn) {
			if len(fr.Results) != 2 || isNilValue(returnedValue(fr, 0)) {
				continue
			}
			ok := false
			var gcm *ssa.Call
			switch y := resolve(returnedValue(fr, 0)).(type) {
			case *ssa.Extract:
				gcm, _ = y.Tuple.(*ssa.Call)
			case *ssa.Call:
				gcm = y
			}
			if gcm != nil && staticIs(gcm, "crypto/cipher.NewGCM") {
				if ex, isE := resolve(gcm.Call.Args[0]).(*ssa.Extract); isE {
					if nc, isC := ex.Tuple.(*ssa.Call); isC && staticIs(nc, "crypto/aes.NewCipher") && len(fn.Params) > 0 && resolve(nc.Call.Args[0]) == ssa.Value(fn.Params[0]) {
						ok = true
					}
				}
			}
			if !ok {
				bad = u.ipos(fr)
			}
		}
		c.check(bad == "", "aead.NewAES256GCM/factory", u.pos(fn.Pos()), "NewGCM(NewCipher(key)) built per call", "the cipher factory returns ("+bad+") something other than cipher.NewGCM(aes.NewCipher(key)) built in that call from its own key parameter: a remembered cipher can belong to another key — a payload is then encrypted under a key other than its data key")
	}
	if n == 0 {
		c.bad("aead.NewAES256GCM/factory", u.pos(ctor.Pos()), "no return found")
	}
}

// ---------------------------------------------------------------------------------------------
// C01.latest-lookups-use-the-latest-marker

// ruleC01LatestLookupUsesMarker: keyCache.load/write file the key the loader returned under cacheKey(meta.ID,
// meta.Created) unless meta is the "latest" marker (Created == 0), in which case they use the key's own Created. A
// latest-lookup therefore has to pass the marker: with a concrete (id, created) in meta, a reload that returns a newer
// key files the new key's bytes under the old key's address, and records written under the old key stop decrypting.
func ruleC01LatestLookupUsesMarker(c *Ctx) {
	u := c.U1
	c.rule("C01.latest-lookup-uses-the-marker", "in keyCache.GetOrLoadLatest every meta handed to getFresh/load/write/read is the literal KeyMeta{ID: id} built from the id parameter, with Created unset or set to the Created() of the key the loader returned in this call — never a looked-up meta", 2)
	f := u.Method(pkgApp, "keyCache", "GetOrLoadLatest")
	if f == nil {
		c.unresolved("keyCache.GetOrLoadLatest", "method")
		return
	}
	c.FuncsAnalysed[shortName(f)] = true
	n := 0
	allInstrs(f, func(i ssa.Instruction) {
		g := staticCallee(i)
		if g == nil || g.Signature.Recv() == nil || !typeIsNamed(g.Signature.Recv().Type(), pkgApp, "keyCache") {
			return
		}
		switch g.Name() {
		case "getFresh", "load", "write", "read":
		default:
			return
		}
		cc := callOf(i)
		for k, a := range cc.Args {
			if k == 0 || !typeIsNamed(a.Type(), pkgApp, "KeyMeta") {
				continue
			}
			n++
			c.CallSites++
			ok := false
			why := describeOperand(a)
			// a helper of the package that builds the marker from the id it is given
			if cv, isC := resolve(a).(*ssa.Call); isC {
				if h := staticCallee(cv); h != nil && h.Blocks != nil && h.Pkg == f.Pkg && len(cv.Call.Args) == 1 && len(h.Params) == 1 && len(f.Params) > 1 && resolve(cv.Call.Args[0]) == ssa.Value(f.Params[1]) {
					all, any := true, false
					for _, hr := range returnsOf(h) {
						any = true
						lit := allocOf(returnedValue(hr, 0))
						if lit == nil {
							if ld2, isL2 := returnedValue(hr, 0).(*ssa.UnOp); isL2 {
								lit, _ = ld2.X.(*ssa.Alloc)
							}
						}
						if lit == nil {
							all = false
							continue
						}
						fl := litFields(lit)
						_, hasCreated := fl["Created"]
						idv, hasID := fl["ID"]
						if hasCreated || !hasID || resolve(idv) != ssa.Value(h.Params[0]) {
							all = false
						}
					}
					ok = all && any
				}
			}
			if ld, isL := a.(*ssa.UnOp); !ok && isL && ld.Op == token.MUL {
				if al, isA := ld.X.(*ssa.Alloc); isA {
					whole := 0
					for _, r := range *al.Referrers() {
						if st, isS := r.(*ssa.Store); isS && st.Addr == ssa.Value(al) {
							whole++
						}
					}
					fl := litFields(al)
					_, hasCreated := fl["Created"]
					idv, hasID := fl["ID"]
					idOK := hasID && len(f.Params) > 1 && resolve(idv) == ssa.Value(f.Params[1])
					if whole == 0 && idOK && !hasCreated {
						ok = true
					} else if whole == 0 && idOK && hasCreated {
						// fully qualified with the Created() of the key this very call just loaded
						if cv, isC := resolve(fl["Created"]).(*ssa.Call); isC && methodNameOf(&cv.Call) == "Created" {
							if ex, isE := resolve(receiverOf(&cv.Call)).(*ssa.Extract); isE {
								if lc, isLC := ex.Tuple.(*ssa.Call); isLC && dynamicCallOfParam(lc, "loader") {
									ok = true
								}
							}
						}
						if !ok {
							why = "a KeyMeta whose Created is not the Created() of the key this call just loaded"
						}
					} else if whole > 0 {
						why = "a KeyMeta variable that is also assigned a looked-up meta"
					}
				}
			}
			c.check(ok, "keyCache.GetOrLoadLatest/"+g.Name()+"-meta", u.ipos(i), "KeyMeta{ID: id}", "a latest-lookup hands "+g.Name()+" "+why+" instead of the latest marker KeyMeta{ID: id}: when the reload returns a newer key it is filed under the older key's (id, created) — records written under the older key are then opened with the wrong key and fail to decrypt")
		}
	})
	if n == 0 {
		c.bad("keyCache.GetOrLoadLatest/meta", u.pos(f.Pos()), "no getFresh/load/write call with a KeyMeta found")
	}
}

// ---------------------------------------------------------------------------------------------
// C07.atomic-value-single-type

// atomicValueStoresOfInterfaces: (*atomic.Value).Store calls in f whose operand has an interface static type: the
// concrete types stored can differ from call to call, and atomic.Value panics on the first store of a different type.
func atomicValueStoresOfInterfaces(f *ssa.Function) []ssa.Instruction {
	var out []ssa.Instruction
	for _, g := range withAnon(f) {
		allInstrs(g, func(i ssa.Instruction) {
			if !staticIs(i, "(*sync/atomic.Value).Store") && !staticIs(i, "(*sync/atomic.Value).Swap") && !staticIs(i, "(*sync/atomic.Value).CompareAndSwap") {
				return
			}
			cc := callOf(i)
			for _, a := range cc.Args[1:] {
				src := a
				if mi, ok := a.(*ssa.MakeInterface); ok {
					src = mi.X
				} else if ci, ok := a.(*ssa.ChangeInterface); ok {
					src = ci.X
				}
				if _, isIface := src.Type().Underlying().(*types.Interface); isIface && !isNilConst(src) {
					out = append(out, i)
				}
			}
		})
	}
	return out
}

func ruleC07AtomicValueSingleType(c *Ctx) {
	u := c.U1
	c.rule("C07.atomic-value-single-type", "no (*atomic.Value).Store/Swap/CompareAndSwap in the SDK is handed a value whose static type is an interface (an error, an any): the concrete type then varies with the input and the second kind of value panics the storing goroutine — expected count on the pinned tree: none; positive example in the self-test fixtures", 0)
	n := 0
	for _, f := range u.RepoFuncs {
		if f.Parent() != nil || f.Pkg == nil || !strings.HasPrefix(f.Pkg.Pkg.Path(), "github.com/godaddy/asherah/") || f.Blocks == nil {
			continue
		}
		for _, i := range atomicValueStoresOfInterfaces(f) {
			n++
			c.CallSites++
			c.bad(trimPkgDirs(shortName(f))+"/atomic.Value.Store", u.ipos(i), "an interface-typed value (e.g. the error of the last decrypt) is stored into an atomic.Value: two inputs that fail with errors of different concrete types make the second Store panic (\"store of inconsistently typed value\") — a malformed record crashes the process instead of yielding an error")
		}
	}
	c.ok("sdk/atomic.Value", "", "no interface-typed store into an atomic.Value")
}

// ---------------------------------------------------------------------------------------------
// pre-sized with a length, then appended to

// presizedThenAppended: a slice made with a non-zero length (make([]T, n)) whose value flows (directly or through a
// phi) into the first operand of append: the n zero elements stay in front of everything that is appended.
func presizedThenAppended(f *ssa.Function) []ssa.Instruction {
	var out []ssa.Instruction
	allInstrs(f, func(i ssa.Instruction) {
		mk, ok := i.(*ssa.MakeSlice)
		if !ok {
			return
		}
		if k, isC := constOf(mk.Len); isC && k.ExactString() == "0" {
			return
		}
		seen := map[ssa.Value]bool{}
		var flows func(v ssa.Value, depth int) bool
		flows = func(v ssa.Value, depth int) bool {
			if depth > 4 || seen[v] {
				return false
			}
			seen[v] = true
			refs := v.Referrers()
			if refs == nil {
				return false
			}
			for _, r := range *refs {
				switch x := r.(type) {
				case *ssa.Call:
					if b, isB := x.Call.Value.(*ssa.Builtin); isB && b.Name() == "append" && len(x.Call.Args) > 0 && x.Call.Args[0] == v {
						return true
					}
				case *ssa.Phi:
					if flows(x, depth+1) {
						return true
					}
				case *ssa.Store:
					// stored into a local variable that is later loaded as append's first operand
					if a, isA := x.Addr.(*ssa.Alloc); isA && x.Val == v {
						for _, r2 := range *a.Referrers() {
							if ld, isL := r2.(*ssa.UnOp); isL && ld.Op == token.MUL && flows(ld, depth+1) {
								return true
							}
						}
					}
				}
			}
			return false
		}
		// elements written by index are a legitimate use of a length; only flag when nothing indexes into it
		indexed := false
		if refs := mk.Referrers(); refs != nil {
			for _, r := range *refs {
				if _, isIA := r.(*ssa.IndexAddr); isIA {
					indexed = true
				}
			}
		}
		if !indexed && flows(mk, 0) {
			out = append(out, i)
		}
	})
	return out
}

func presizedThenAppendedRule(prop string, pkgs ...string) func(*Ctx) {
	return func(c *Ctx) {
		u := c.U1
		c.rule(prop+".no-presized-then-appended", "in the listed packages no slice is made with a non-zero length and then only appended to (make([]T, n) where make([]T, 0, n) was meant): the n zero values stay in front of the data — expected count on the pinned tree: none; positive example in the self-test fixtures", 0)
		inPkg := map[string]bool{}
		for _, p := range pkgs {
			inPkg[p] = true
		}
		n := 0
		for _, f := range u.RepoFuncs {
			root := rootFunc(f)
			if root.Pkg == nil || !inPkg[root.Pkg.Pkg.Path()] || f.Blocks == nil {
				continue
			}
			for _, i := range presizedThenAppended(f) {
				n++
				c.CallSites++
				c.bad(trimPkgDirs(shortName(f))+"/make-then-append", u.ipos(i), "the slice is created with a length and then appended to: it starts with that many zero values — a list of creation times gains leading zeros (the latest record is mis-ranked when every real value is below zero), a list of entries gains empty ones")
			}
		}
		c.ok(prop+"/make-then-append", "", "no slice is pre-sized with a length and then appended to")
	}
}

// ---------------------------------------------------------------------------------------------
// C15.expiration-written-only-by-set, C15.values-are-opaque

// ruleC15ExpirationWrittenOnlyBySet: an entry's deadline is "time of the last Set + expiry". Only Set (and helpers that
// only Set calls) write cacheItem.expiration: a read that renews it turns the expiry into an idle timeout — entries that
// are read regularly never expire and Get keeps returning values that should have left the cache.
func ruleC15ExpirationWrittenOnlyBySet(c *Ctx) {
	u := c.U1
	c.rule("C15.expiration-written-only-by-set", "cacheItem.expiration is stored only in cache.Set, in the composite literal Set builds, or in helpers all of whose call sites (transitively) are in Set: Get, Delete and the eviction paths never renew a deadline", 1)
	set := u.Method(pkgCache, "cache", "Set")
	if set == nil {
		c.unresolved("cache.Set", "method")
		return
	}
	var onlyFromSet func(f *ssa.Function, depth int) bool
	onlyFromSet = func(f *ssa.Function, depth int) bool {
		if orig(f) == orig(set) {
			return true
		}
		if depth > 3 {
			return false
		}
		buildCallSiteIndex(f)
		sites := callSiteIndex[orig(f)]
		if len(sites) == 0 || addressTaken[orig(f)] {
			return false
		}
		for _, ci := range sites {
			if !onlyFromSet(ci.Parent(), depth+1) {
				return false
			}
		}
		return true
	}
	n := 0
	for _, f := range u.RepoFuncs {
		root := rootFunc(f)
		if root.Pkg == nil || root.Pkg.Pkg.Path() != pkgCache || f.Blocks == nil {
			continue
		}
		allInstrs(f, func(i ssa.Instruction) {
			st, ok := i.(*ssa.Store)
			if !ok {
				return
			}
			fa, isF := st.Addr.(*ssa.FieldAddr)
			if !isF || fieldName(fa.X.Type(), fa.Field) != "expiration" {
				return
			}
			n++
			c.CallSites++
			c.FuncsAnalysed[shortName(f)] = true
			c.check(onlyFromSet(f, 0), trimPkgDirs(shortName(f))+"/expiration-store", u.ipos(i), "reached only from Set", "an entry's expiration is (re)written on a path that does not come from Set (a read, a delete, an eviction): the deadline no longer is \"last Set + expiry\" — entries that keep being read never expire, and lookups return values that should have been evicted as expired")
		})
	}
	if n == 0 {
		c.bad("cache/expiration-store", "", "no store to cacheItem.expiration found")
	}
}

// ruleC15ValuesAreOpaque: the generic cache never looks inside the values it stores: what happens to a value that leaves
// the cache is the evict callback's business. A type assertion on a value ("if it is an io.Closer, close it") calls a
// method whose meaning the cache cannot know — for a cached *Session, Close means "one holder is done", and an eviction
// then drops a reference nobody gave back.
func ruleC15ValuesAreOpaque(c *Ctx) {
	u := c.U1
	c.rule("C15.values-are-opaque", "no function of pkg/cache converts a stored value (a cacheItem.value, or a parameter of the value type parameter) to an interface in order to type-assert it or call a method on it", 1)
	n := 0
	for _, f := range u.RepoFuncs {
		root := rootFunc(f)
		if root.Pkg == nil || root.Pkg.Pkg.Path() != pkgCache || f.Blocks == nil {
			continue
		}
		allInstrs(f, func(i ssa.Instruction) {
			ta, ok := i.(*ssa.TypeAssert)
			if !ok {
				return
			}
			src := ta.X
			for k := 0; k < 3; k++ {
				switch y := src.(type) {
				case *ssa.MakeInterface:
					src = y.X
				case *ssa.ChangeType:
					src = y.X
				case *ssa.ChangeInterface:
					src = y.X
				}
			}
			isValue := false
			if ld, isL := src.(*ssa.UnOp); isL && ld.Op == token.MUL {
				if fa, isF := ld.X.(*ssa.FieldAddr); isF && fieldName(fa.X.Type(), fa.Field) == "value" {
					isValue = true
				}
			}
			if p, isP := src.(*ssa.Parameter); isP {
				if _, isTP := p.Type().(*types.TypeParam); isTP {
					isValue = true
				}
			}
			if !isValue {
				return
			}
			n++
			c.CallSites++
			c.bad(trimPkgDirs(shortName(f))+"/value-type-assert", u.ipos(i), "the cache inspects a stored value (type assertion to "+ta.AssertedType.String()+"): calling a method the value happens to have — e.g. Close on a cached session, which means \"one holder released it\" — tears the entry down under its holders or releases it twice")
		})
	}
	c.ok("cache/values-opaque", "", "stored values are never type-asserted")
	_ = n
}

// ---------------------------------------------------------------------------------------------
// wrappers do not hide optional interfaces

// optionalMethodsOf: names of the methods the SDK looks for on a value of interface type `iface` by type assertion
// (optional capabilities, e.g. GetRegionSuffix on a Metastore).
func optionalMethodsOf(u *Universe, appPkg, iface string) []string {
	seen := map[string]bool{}
	for _, f := range u.RepoFuncs {
		root := rootFunc(f)
		if root.Pkg == nil || root.Pkg.Pkg.Path() != appPkg || f.Blocks == nil {
			continue
		}
		allInstrs(f, func(i ssa.Instruction) {
			ta, ok := i.(*ssa.TypeAssert)
			if !ok || !typeIsNamed(ta.X.Type(), appPkg, iface) {
				return
			}
			if it, isI := ta.AssertedType.Underlying().(*types.Interface); isI {
				for k := 0; k < it.NumMethods(); k++ {
					seen[it.Method(k).Name()] = true
				}
			}
		})
	}
	var out []string
	for k := range seen {
		out = append(out, k)
	}
	return out
}

// hidingWrappers: named struct types of the universe's repository packages that embed the interface pkg.iface (and so
// can be passed on as one) without having every method in `optional`.
func hidingWrappers(u *Universe, appPkg, iface string, optional []string) []*types.Named {
	var out []*types.Named
	for _, p := range u.Pkgs {
		if !strings.HasPrefix(p.PkgPath, "github.com/godaddy/asherah/") && !strings.HasPrefix(p.PkgPath, "fixtures/") {
			continue
		}
		if strings.Contains(p.PkgPath, "/mocks") || p.Types == nil {
			continue
		}
		sc := p.Types.Scope()
		for _, nm := range sc.Names() {
			tn, ok := sc.Lookup(nm).(*types.TypeName)
			if !ok {
				continue
			}
			nt, ok := tn.Type().(*types.Named)
			if !ok {
				continue
			}
			st, ok := nt.Underlying().(*types.Struct)
			if !ok {
				continue
			}
			embeds := false
			for k := 0; k < st.NumFields(); k++ {
				fld := st.Field(k)
				if fld.Embedded() && typeIsNamed(fld.Type(), appPkg, iface) {
					embeds = true
				}
			}
			if !embeds {
				continue
			}
			ms := types.NewMethodSet(types.NewPointer(nt))
			missing := false
			for _, m := range optional {
				if ms.Lookup(nil, m) == nil && ms.Lookup(p.Types, m) == nil {
					missing = true
				}
			}
			if missing {
				out = append(out, nt)
			}
		}
	}
	return out
}

// ruleC18WrappersKeepOptionalInterfaces: the SDK discovers a metastore's region suffix through an optional method found
// by type assertion. A decorator that embeds the Metastore interface (logging, metrics, retries) only promotes the
// interface's own methods: the optional one disappears, the assertion fails silently, and key ids come out without
// their region part — a different, incompatible id scheme for the same table.
func ruleC18WrappersKeepOptionalInterfaces(c *Ctx) {
	c.rule("C18.wrappers-keep-optional-interfaces", "every struct type of the SDK and the sidecar that embeds appencryption.Metastore also has each method the SDK looks for on a Metastore by type assertion (GetRegionSuffix): a decorator must not hide an optional capability — expected count on the pinned tree: none; positive example in the self-test fixtures", 0)
	opt := optionalMethodsOf(c.U1, pkgApp, "Metastore")
	if len(opt) == 0 {
		c.bad("Metastore/optional-methods", "", "no optional method is discovered on Metastore values by type assertion any more (GetRegionSuffix expected)")
		return
	}
	n := 0
	for _, u := range []*Universe{c.U1, c.U2} {
		if u == nil {
			continue
		}
		for _, nt := range hidingWrappers(u, pkgApp, "Metastore", opt) {
			n++
			c.CallSites++
			c.bad(nt.Obj().Pkg().Name()+"."+nt.Obj().Name(), u.pos(nt.Obj().Pos()), "the type embeds appencryption.Metastore but lacks "+strings.Join(opt, ", ")+": wrapped in it, a region-suffixing metastore no longer reports its suffix (the SDK's type assertion fails silently) and every key id is written without the region — ids other than the documented _IK_partition_service_product_region, against the same table")
		}
	}
	c.ok("Metastore/wrappers", "", "no decorator hides "+strings.Join(opt, ", "))
}

// ---------------------------------------------------------------------------------------------
// C11.reader-copies-only-to-caller

// ruleC11ReaderCopiesOnlyToCaller: secrets.Reader is the SDK's own consumer of WithBytes. The protected bytes its
// callback is shown leave the callback only into the buffer the caller of Read supplied: no read-ahead slice, no field
// of the Reader, no append. Anything else is a copy of the secret in ordinary heap memory — unlocked, dumpable, never
// wiped, and still there after the secret is closed.
func ruleC11ReaderCopiesOnlyToCaller(c *Ctx) {
	u := c.U1
	c.rule("C11.reader-copies-only-to-caller", "in secrets.Reader.Read the callback's view of the protected bytes (and every re-slice of it) is used only as the source of copy(p, …) into Read's own buffer parameter, in len() and in comparisons — never appended, stored or copied anywhere else", 1)
	f := u.Method(pkgSecrets, "Reader", "Read")
	if f == nil {
		c.unresolved("secrets.Reader.Read", "method")
		return
	}
	n := 0
	for _, g := range withAnon(f) {
		if g == f || len(g.Params) == 0 || !isByteSlice(g.Params[0].Type()) {
			continue
		}
		c.FuncsAnalysed[shortName(g)] = true
		n++
		c.CallSites++
		bad := ""
		badPos := ""
		seen := map[ssa.Value]bool{}
		// isCallersBuf: in the frame being walked, dst is Read's own buffer parameter
		var walk func(v ssa.Value, isCallersBuf func(dst ssa.Value) bool, depth int)
		walk = func(v ssa.Value, isCallersBuf func(dst ssa.Value) bool, depth int) {
			if seen[v] || v.Referrers() == nil {
				return
			}
			seen[v] = true
			for _, r := range *v.Referrers() {
				switch x := r.(type) {
				case *ssa.Slice:
					if x.X == v {
						walk(x, isCallersBuf, depth)
					}
				case *ssa.Phi:
					walk(x, isCallersBuf, depth)
				case *ssa.DebugRef, *ssa.BinOp, *ssa.IndexAddr, *ssa.Index:
				case *ssa.Call:
					b, isB := x.Call.Value.(*ssa.Builtin)
					h := x.Call.StaticCallee()
					switch {
					case isB && b.Name() == "len", isB && b.Name() == "cap":
					case isB && b.Name() == "copy" && len(x.Call.Args) == 2 && x.Call.Args[1] == v:
						// destination must be Read's own buffer parameter (captured)
						if !isCallersBuf(x.Call.Args[0]) {
							bad, badPos = "copied into "+describeOperand(x.Call.Args[0])+" (not the caller's buffer)", u.ipos(x)
						}
					case h != nil && h.Blocks != nil && h.Pkg == f.Pkg && depth < 2:
						// a helper of the package: the same discipline holds for its view of the bytes
						c.FuncsAnalysed[shortName(h)] = true
						call := x
						for k, a := range call.Call.Args {
							if a != v || k >= len(h.Params) {
								continue
							}
							walk(h.Params[k], func(dst ssa.Value) bool {
								dp, isP := resolve(dst).(*ssa.Parameter)
								if !isP {
									return false
								}
								for j, q := range h.Params {
									if q == dp && j < len(call.Call.Args) && isCallersBuf(call.Call.Args[j]) {
										return true
									}
								}
								return false
							}, depth+1)
						}
					default:
						bad, badPos = "handed to "+calleeLabel(x), u.ipos(x)
					}
				case *ssa.Store:
					if x.Val == v {
						bad, badPos = "stored into "+describeOperand(x.Addr), u.ipos(x)
					}
				default:
					if inst, ok := r.(ssa.Instruction); ok {
						bad, badPos = "used by "+instrText(inst), u.ipos(inst)
					}
				}
			}
		}
		walk(g.Params[0], func(dst ssa.Value) bool {
			return len(f.Params) >= 2 && trimAddr(accessPath(dst)) == "P:"+f.Params[1].Name()
		}, 0)
		if bad == "" {
			c.ok("secrets.Reader.Read/callback", u.pos(g.Pos()), "protected bytes only copied into the caller's buffer")
		} else {
			c.bad("secrets.Reader.Read/callback", badPos, "the protected bytes shown to the Reader's callback are "+bad+": a copy of the secret now lives in ordinary heap memory — not locked, not wiped, readable after the secret was closed")
		}
	}
	if n == 0 {
		c.bad("secrets.Reader.Read/callback", u.pos(f.Pos()), "no WithBytes callback found in Reader.Read")
	}
}

// ---------------------------------------------------------------------------------------------
// C05.reload-result-used

// ruleC05ReloadResultUsed: keyCache.load returns the key the caller has to go on with — the reloaded key when the
// loader returned a different one (the cached key was revoked and replaced), the refreshed cached key otherwise. A
// caller that ignores the result and carries on with the key it looked up before keeps using the revoked key for the
// operation that discovered the revocation.
func ruleC05ReloadResultUsed(c *Ctx) {
	u := c.U1
	c.rule("C05.reload-result-used", "in the methods of keyCache every call of load(meta, loader) has its key result flow into a value the method returns (directly, through tracked(), or through a phi): the reloaded key is never discarded in favour of the key read before the reload", 2)
	ld := u.Method(pkgApp, "keyCache", "load")
	if ld == nil {
		c.unresolved("keyCache.load", "method")
		return
	}
	n := 0
	for _, f := range u.RepoFuncs {
		if f.Signature.Recv() == nil || !typeIsNamed(f.Signature.Recv().Type(), pkgApp, "keyCache") || f.Blocks == nil || f == ld {
			continue
		}
		allInstrs(f, func(i ssa.Instruction) {
			if staticCallee(i) != ld {
				return
			}
			n++
			c.CallSites++
			c.FuncsAnalysed[shortName(f)] = true
			var key ssa.Value
			for _, pr := range resultsOfType(i, isCachedKeyPtr) {
				key = pr[0]
			}
			used := false
			if key != nil {
				seen := map[ssa.Value]bool{}
				var flows func(v ssa.Value, depth int)
				flows = func(v ssa.Value, depth int) {
					if seen[v] || depth > 6 || v.Referrers() == nil {
						return
					}
					seen[v] = true
					for _, r := range *v.Referrers() {
						switch x := r.(type) {
						case *ssa.Return:
							used = true
						case *ssa.Phi:
							flows(x, depth+1)
						case *ssa.Call:
							if g := staticCallee(x); g != nil && (g.Name() == "tracked" || g.Name() == "increment") {
								flows(x, depth+1)
							}
						case *ssa.Store:
							if a, isA := x.Addr.(*ssa.Alloc); isA && x.Val == v {
								for _, r2 := range *a.Referrers() {
									if l2, isL := r2.(*ssa.UnOp); isL && l2.Op == token.MUL {
										flows(l2, depth+1)
									}
								}
							}
						}
					}
				}
				flows(key, 0)
			}
			c.check(used, trimPkgDirs(shortName(f))+"/load-result", u.ipos(i), "the reloaded key is what the method goes on with", "the key returned by load() is discarded: after a reload that replaced a revoked (or superseded) key the method still hands out the key it had looked up before — the operation that detects the revocation is itself carried out under the revoked key")
		})
	}
	if n == 0 {
		c.bad("keyCache/load-calls", "", "no call of keyCache.load found")
	}
}
