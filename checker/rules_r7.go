package main

import (
	"go/token"
	"go/types"
	"strings"

	"golang.org/x/tools/go/ssa"
)

// Rules added during seeding round 7.

// ---------------------------------------------------------------------------------------------
// ownership provenance of a result

// notOwnedWhy: v is supposed to be a value this call owns exclusively (it is about to be wiped, or to be used as key
// material and wiped later). Returns "" if v is the result of a call made in this invocation whose callee hands out a
// fresh value: an interface method (KMS / AEAD / client contracts), a function outside the repository, or a repository
// function all of whose returns are themselves owned. Anything read from a field of a heap object, a map, a channel,
// a sync.Once-style memo or a captured variable assigned elsewhere is shared with whoever else can reach it.
func notOwnedWhy(v ssa.Value, depth int, seen map[ssa.Value]bool) string {
	v = resolve(v)
	if depth > 6 {
		return ""
	}
	if seen[v] {
		return ""
	}
	seen[v] = true
	if isNilConst(v) {
		return ""
	}
	switch x := v.(type) {
	case *ssa.Phi:
		for _, e := range x.Edges {
			if why := notOwnedWhy(e, depth+1, seen); why != "" {
				return why
			}
		}
		return ""
	case *ssa.Extract:
		if _, isRecv := x.Tuple.(*ssa.UnOp); isRecv {
			return "a value received from a channel"
		}
		if lk, isL := x.Tuple.(*ssa.Lookup); isL {
			return "a map lookup (" + describeOperand(lk.X) + ")"
		}
		if cv, isC := x.Tuple.(*ssa.Call); isC {
			return notOwnedCall(cv, x.Index, depth, seen)
		}
		if ta, isTA := x.Tuple.(*ssa.TypeAssert); isTA {
			return notOwnedWhy(ta.X, depth+1, seen)
		}
	case *ssa.Call:
		return notOwnedCall(x, 0, depth, seen)
	case *ssa.Alloc, *ssa.MakeSlice, *ssa.Slice:
		if sl, isS := x.(*ssa.Slice); isS {
			return notOwnedWhy(sl.X, depth+1, seen)
		}
		return ""
	case *ssa.UnOp:
		switch x.Op {
		case token.ARROW:
			return "a value received from a channel"
		case token.MUL:
			switch a := x.X.(type) {
			case *ssa.FieldAddr:
				if la, isLocal := a.X.(*ssa.Alloc); isLocal {
					for _, sv := range localStores(la) {
						if why := notOwnedWhy(sv, depth+1, seen); why != "" {
							return why
						}
					}
					return ""
				}
				return "the field " + trimAddr(accessPath(a)) + " of an object other callers can reach"
			case *ssa.Global:
				return "the package-level variable " + a.Name()
			case *ssa.FreeVar:
				return "a captured variable"
			}
		}
	case *ssa.Lookup:
		return "a map lookup (" + describeOperand(x.X) + ")"
	case *ssa.Parameter:
		return "" // ownership of a parameter is the caller's obligation
	case *ssa.TypeAssert:
		return notOwnedWhy(x.X, depth+1, seen)
	case *ssa.MakeInterface:
		return notOwnedWhy(x.X, depth+1, seen)
	case *ssa.ChangeInterface:
		return notOwnedWhy(x.X, depth+1, seen)
	}
	return ""
}

func notOwnedCall(cv *ssa.Call, idx int, depth int, seen map[ssa.Value]bool) string {
	if cv.Call.IsInvoke() {
		return ""
	}
	g := staticCallee(cv)
	if g == nil {
		// a call through a function value: a memoising wrapper (sync.OnceValue(s)) hands every caller the same result
		if src, ok := resolve(cv.Call.Value).(*ssa.Call); ok {
			if h := staticCallee(src); h != nil && h.Pkg != nil && h.Pkg.Pkg.Path() == "sync" && strings.HasPrefix(h.Name(), "OnceValue") {
				return "the result of a sync." + h.Name() + " function (every caller gets the same value)"
			}
		}
		if why := notOwnedWhy(cv.Call.Value, depth+1, seen); why != "" {
			return "a call through a function value read from " + why
		}
		return ""
	}
	// containers that exist to share values between callers
	if g.Signature.Recv() != nil {
		rt := g.Signature.Recv().Type().String()
		for _, shared := range []string{"sync.Map", "sync.Pool", "sync/atomic.Value", "sync/atomic.Pointer"} {
			if strings.Contains(rt, shared) && (strings.HasPrefix(g.Name(), "Load") || g.Name() == "Get" || g.Name() == "Swap") {
				return "a value taken out of a " + shared
			}
		}
	}
	if g.Blocks == nil || g.Pkg == nil || !strings.HasPrefix(g.Pkg.Pkg.Path(), "github.com/godaddy/asherah/") {
		return ""
	}
	for _, r := range returnsOf(g) {
		if idx >= len(r.Results) {
			continue
		}
		if why := notOwnedWhy(returnedValue(r, idx), depth+1, seen); why != "" {
			return why + " (returned by " + g.Name() + ")"
		}
	}
	return ""
}

// ruleC10WipedBuffersAreOwned: internal.NewCryptoKey wipes the plaintext it is given, and the KMS plugins wipe the data
// key once the envelope is built. That is only correct if the wiping call is the sole owner of the buffer: a buffer
// shared between concurrent callers (de-duplicated loads), or kept for the next call (a cache of the KMS answer), is
// zeroed under its other users — who then build a system key, or wrap one, from all-zero bytes.
func ruleC10WipedBuffersAreOwned(c *Ctx) {
	u := c.U1
	c.rule("C10.wiped-buffers-are-owned", "the plaintext handed to internal.NewCryptoKey, and the data-key output returned by generateDataKey in both KMS plugins, is the result of a call made in this invocation whose callee hands out a fresh value — never read from a field, map, channel, memo or shared in-flight call", 5)
	nck := u.Func(pkgInt, "NewCryptoKey")
	n := 0
	for _, f := range u.RepoFuncs {
		root := rootFunc(f)
		if root.Pkg == nil || !strings.HasPrefix(root.Pkg.Pkg.Path(), modApp) || strings.Contains(root.Pkg.Pkg.Path(), "/mocks") || f.Blocks == nil {
			continue
		}
		allInstrs(f, func(i ssa.Instruction) {
			if nck == nil || staticCallee(i) != nck {
				return
			}
			n++
			c.CallSites++
			c.FuncsAnalysed[shortName(f)] = true
			why := notOwnedWhy(callOf(i).Args[3], 0, map[ssa.Value]bool{})
			c.check(why == "", trimPkgDirs(shortName(f))+"/NewCryptoKey-plaintext", u.ipos(i), "the wiped plaintext is this call's own", "the plaintext handed to NewCryptoKey (which wipes it) is "+why+": another caller holding the same bytes builds its key from a buffer that has been zeroed — a system key of all zeroes that then wraps intermediate keys, or records nobody else can decrypt")
		})
		if (root.Pkg.Pkg.Path() == pkgKmsV1 || root.Pkg.Pkg.Path() == pkgKmsV2) && f.Name() == "generateDataKey" {
			for _, r := range returnsOf(f) {
				if len(r.Results) == 0 || isNilValue(returnedValue(r, 0)) {
					continue
				}
				n++
				c.CallSites++
				c.FuncsAnalysed[shortName(f)] = true
				why := notOwnedWhy(returnedValue(r, 0), 0, map[ssa.Value]bool{})
				c.check(why == "", trimPkgDirs(shortName(f))+"/data-key", u.ipos(r), "fresh KMS answer", "generateDataKey returns "+why+" instead of the answer of a KMS call made for this wrap: EncryptKey wipes the data key when it is done, so the next system key is sealed under an all-zero (publicly known) key")
			}
		}
	}
	if n == 0 {
		c.bad("NewCryptoKey/plaintext", "", "no NewCryptoKey call found")
	}
}

// ---------------------------------------------------------------------------------------------
// C01.dependencies-not-closed

// ruleC01DependenciesNotClosed: KMS, Metastore, AEAD and SecretFactory are handed to the factory by the application
// and may be shared with other factories. The SDK never closes them (whatever optional Close method they may have).
func ruleC01DependenciesNotClosed(c *Ctx) {
	u := c.U1
	c.rule("C01.dependencies-not-closed", "no function of package appencryption calls a method named Close (directly or after a type assertion / interface conversion) on a value read from the caller-supplied dependency fields KMS, Metastore, Crypto or SecretFactory", 1)
	dep := map[string]bool{"KMS": true, "Metastore": true, "Crypto": true, "SecretFactory": true}
	var fromDep func(v ssa.Value, depth int) string
	fromDep = func(v ssa.Value, depth int) string {
		if depth > 6 {
			return ""
		}
		switch x := v.(type) {
		case *ssa.TypeAssert:
			return fromDep(x.X, depth+1)
		case *ssa.Extract:
			if ta, ok := x.Tuple.(*ssa.TypeAssert); ok {
				return fromDep(ta.X, depth+1)
			}
		case *ssa.ChangeInterface:
			return fromDep(x.X, depth+1)
		case *ssa.MakeInterface:
			return fromDep(x.X, depth+1)
		case *ssa.Phi:
			for _, e := range x.Edges {
				if s := fromDep(e, depth+1); s != "" {
					return s
				}
			}
		case *ssa.UnOp:
			if x.Op == token.MUL {
				if fa, ok := x.X.(*ssa.FieldAddr); ok && dep[fieldName(fa.X.Type(), fa.Field)] {
					return fieldName(fa.X.Type(), fa.Field)
				}
				if a, ok := x.X.(*ssa.Alloc); ok {
					for _, sv := range localStores(a) {
						if s := fromDep(sv, depth+1); s != "" {
							return s
						}
					}
				}
				// an element of a local slice/array literal: any value stored into that literal
				if ia, ok := x.X.(*ssa.IndexAddr); ok {
					base := ia.X
					if sl, isS := base.(*ssa.Slice); isS {
						base = sl.X
					}
					if arr, isA := base.(*ssa.Alloc); isA {
						for _, r := range *arr.Referrers() {
							if ia2, isIA := r.(*ssa.IndexAddr); isIA {
								for _, r2 := range *ia2.Referrers() {
									if st, isSt := r2.(*ssa.Store); isSt && st.Addr == ssa.Value(ia2) {
										if s := fromDep(st.Val, depth+1); s != "" {
											return s
										}
									}
								}
							}
						}
					}
				}
			}
		}
		return ""
	}
	n := 0
	for _, f := range u.RepoFuncs {
		root := rootFunc(f)
		if root.Pkg == nil || root.Pkg.Pkg.Path() != pkgApp || f.Blocks == nil {
			continue
		}
		allInstrs(f, func(i ssa.Instruction) {
			cc := callOf(i)
			if cc == nil {
				return
			}
			var recv ssa.Value
			if cc.IsInvoke() && cc.Method.Name() == "Close" {
				recv = cc.Value
			} else if g := staticCallee(i); g != nil && g.Name() == "Close" && g.Signature.Recv() != nil && len(cc.Args) > 0 {
				recv = cc.Args[0]
			}
			if recv == nil {
				return
			}
			n++
			if d := fromDep(recv, 0); d != "" {
				c.CallSites++
				c.bad(trimPkgDirs(shortName(f))+"/Close of "+d, u.ipos(i), "the SDK closes the caller-supplied "+d+": the application (or another SessionFactory built over the same object) is still using it — after one factory is closed, every other one fails to decrypt what was encrypted before")
			}
		})
	}
	c.check(n > 0, "appencryption/Close-calls", "", "Close calls scanned; none on a caller-supplied dependency", "no Close call found at all in package appencryption")
}

// ---------------------------------------------------------------------------------------------
// C02.acquire-release-paired

// ruleC02AcquireReleasePaired: a counted resource taken with a method named acquire… (a semaphore slot, a token) is
// given back with its release… counterpart on every path to return — in particular on the error returns between the
// two. A slot leaked per failed call exhausts the limiter after a few faults and every later operation blocks although
// the metastore and the KMS have long recovered.
func ruleC02AcquireReleasePaired(c *Ctx) {
	u := c.U1
	c.rule("C02.acquire-release-paired", "in the SDK, after every call of a method or function named acquire<X>, every path to return of the calling function passes release<X> (directly or deferred) — expected count on the pinned tree: none; positive example in the self-test fixtures", 0)
	n := 0
	for _, f := range u.RepoFuncs {
		root := rootFunc(f)
		if root.Pkg == nil || !strings.HasPrefix(root.Pkg.Pkg.Path(), modApp) || f.Blocks == nil {
			continue
		}
		for _, leak := range unreleasedAcquires(f) {
			n++
			c.CallSites++
			c.bad(trimPkgDirs(shortName(f))+"/"+calleeLabel(leak.Acquire), u.ipos(leak.Acquire), "a path from this acquire reaches return without the matching release (e.g. an early error return): each such failure leaks one slot, and once the limiter is exhausted every operation blocks for ever although its dependencies are healthy again", u.tracePositions(leak.Trace)...)
		}
	}
	c.ok("sdk/acquire-release", "", "every acquire… is followed by its release… on all paths")
}

type acquireLeak struct {
	Acquire ssa.Instruction
	Trace   []ssa.Instruction
}

func pairName(i ssa.Instruction) string {
	cc := callOf(i)
	if cc == nil {
		return ""
	}
	if cc.IsInvoke() {
		return cc.Method.Name()
	}
	if g := staticCallee(i); g != nil {
		return g.Name()
	}
	return ""
}

func unreleasedAcquires(f *ssa.Function) []acquireLeak {
	var out []acquireLeak
	allInstrs(f, func(i ssa.Instruction) {
		if _, isCall := i.(*ssa.Call); !isCall {
			return
		}
		nm := pairName(i)
		if !strings.HasPrefix(strings.ToLower(nm), "acquire") || len(nm) <= len("acquire") {
			return
		}
		want := strings.ToLower("release" + nm[len("acquire"):])
		// a deferred release registered before or right after the acquire covers every exit
		deferred := false
		allInstrs(f, func(j ssa.Instruction) {
			if d, isD := j.(*ssa.Defer); isD && strings.ToLower(pairName(d)) == want {
				deferred = true
			}
			if d, isD := j.(*ssa.Defer); isD {
				if mc, isMC := d.Call.Value.(*ssa.MakeClosure); isMC {
					if fn, isF := mc.Fn.(*ssa.Function); isF && containsInstr(fn, func(k ssa.Instruction) bool { return strings.ToLower(pairName(k)) == want }) {
						deferred = true
					}
				}
			}
		})
		if deferred {
			return
		}
		// the acquire may itself fail (returns an error / bool): its failure edge owes nothing
		e := errOfCall(i)
		ok, tr := mustPass(i.Block(), indexOf(i)+1, func(j ssa.Instruction) bool { return strings.ToLower(pairName(j)) == want }, func(from, to *ssa.BasicBlock) bool {
			if e == nil {
				return false
			}
			for _, fct := range edgeFacts(from, to) {
				if x, isNil, isT := nilTest(fct); isT && !isNil && strip(x) == e {
					return true
				}
			}
			return false
		})
		if !ok {
			out = append(out, acquireLeak{i, tr})
		}
	})
	return out
}

// ---------------------------------------------------------------------------------------------
// C03.cipher-built-from-this-key

// ruleC03CipherBuiltFromThisKey: every Encrypt/Decrypt of the AES-256-GCM AEAD seals/opens with a cipher constructed in
// that call from the key it was given: the cipher factory installed by NewAES256GCM is a plain function whose every
// success return is cipher.NewGCM(aes.NewCipher(<its key parameter>)). A factory that remembers a cipher (last-key
// memo, pool, cache keyed by a digest) can hand one caller another caller's cipher: payloads end up sealed under the
// wrong key although every argument looks right.
func ruleC03CipherBuiltFromThisKey(c *Ctx) {
	u := c.U1
	c.rule("C03.cipher-built-from-this-key", "NewAES256GCM wraps a plain function (no closure, no stored state) whose every non-nil AEAD result is cipher.NewGCM(<block>) with <block> the result of aes.NewCipher(<the function's own key parameter>) made in the same call", 1)
	pkgAead := modApp + "/pkg/crypto/aead"
	ctor := u.Func(pkgAead, "NewAES256GCM")
	if ctor == nil {
		c.unresolved("NewAES256GCM", "function")
		return
	}
	c.FuncsAnalysed[shortName(ctor)] = true
	n := 0
	for _, r := range returnsOf(ctor) {
		n++
		c.CallSites++
		v := returnedValue(r, 0)
		for k := 0; k < 4; k++ {
			switch x := v.(type) {
			case *ssa.MakeInterface:
				v = x.X
				continue
			case *ssa.ChangeType:
				v = x.X
				continue
			}
			break
		}
		fn, isFn := v.(*ssa.Function)
		if !isFn || fn.Blocks == nil || len(fn.FreeVars) > 0 {
			c.bad("aead.NewAES256GCM/factory", u.ipos(r), "the cipher factory is not a plain function ("+describeOperand(v)+"): a wrapper or closure around it can keep ciphers between calls")
			continue
		}
		c.FuncsAnalysed[shortName(fn)] = true
		bad := ""
		for _, fr := range returnsOf(fn) {
			if len(fr.Results) != 2 || isNilValue(returnedValue(fr, 0)) {
				continue
			}
			ok := false
			var gcm *ssa.Call
			switch y := resolve(returnedValue(fr, 0)).(type) {
			case *ssa.Extract:
				gcm, _ = y.Tuple.(*ssa.Call)
			case *ssa.Call:
				gcm = y
			}
			if gcm != nil && staticIs(gcm, "crypto/cipher.NewGCM") {
				if ex, isE := resolve(gcm.Call.Args[0]).(*ssa.Extract); isE {
					if nc, isC := ex.Tuple.(*ssa.Call); isC && staticIs(nc, "crypto/aes.NewCipher") && len(fn.Params) > 0 && resolve(nc.Call.Args[0]) == ssa.Value(fn.Params[0]) {
						ok = true
					}
				}
			}
			if !ok {
				bad = u.ipos(fr)
			}
		}
		c.check(bad == "", "aead.NewAES256GCM/factory", u.pos(fn.Pos()), "NewGCM(NewCipher(key)) built per call", "the cipher factory returns ("+bad+") something other than cipher.NewGCM(aes.NewCipher(key)) built in that call from its own key parameter: a remembered cipher can belong to another key — a payload is then encrypted under a key other than its data key")
	}
	if n == 0 {
		c.bad("aead.NewAES256GCM/factory", u.pos(ctor.Pos()), "no return found")
	}
}

// ---------------------------------------------------------------------------------------------
// C01.latest-lookups-use-the-latest-marker

// ruleC01LatestLookupUsesMarker: keyCache.load/write file the key the loader returned under cacheKey(meta.ID,
// meta.Created) unless meta is the "latest" marker (Created == 0), in which case they use the key's own Created. A
// latest-lookup therefore has to pass the marker: with a concrete (id, created) in meta, a reload that returns a newer
// key files the new key's bytes under the old key's address, and records written under the old key stop decrypting.
func ruleC01LatestLookupUsesMarker(c *Ctx) {
	u := c.U1
	c.rule("C01.latest-lookup-uses-the-marker", "in keyCache.GetOrLoadLatest every meta handed to getFresh/load/write/read is the literal KeyMeta{ID: id} built from the id parameter, with Created unset or set to the Created() of the key the loader returned in this call — never a looked-up meta", 2)
	f := u.Method(pkgApp, "keyCache", "GetOrLoadLatest")
	if f == nil {
		c.unresolved("keyCache.GetOrLoadLatest", "method")
		return
	}
	c.FuncsAnalysed[shortName(f)] = true
	n := 0
	allInstrs(f, func(i ssa.Instruction) {
		g := staticCallee(i)
		if g == nil || g.Signature.Recv() == nil || !typeIsNamed(g.Signature.Recv().Type(), pkgApp, "keyCache") {
			return
		}
		switch g.Name() {
		case "getFresh", "load", "write", "read":
		default:
			return
		}
		cc := callOf(i)
		for k, a := range cc.Args {
			if k == 0 || !typeIsNamed(a.Type(), pkgApp, "KeyMeta") {
				continue
			}
			n++
			c.CallSites++
			ok := false
			why := describeOperand(a)
			if ld, isL := a.(*ssa.UnOp); isL && ld.Op == token.MUL {
				if al, isA := ld.X.(*ssa.Alloc); isA {
					whole := 0
					for _, r := range *al.Referrers() {
						if st, isS := r.(*ssa.Store); isS && st.Addr == ssa.Value(al) {
							whole++
						}
					}
					fl := litFields(al)
					_, hasCreated := fl["Created"]
					idv, hasID := fl["ID"]
					idOK := hasID && len(f.Params) > 1 && resolve(idv) == ssa.Value(f.Params[1])
					if whole == 0 && idOK && !hasCreated {
						ok = true
					} else if whole == 0 && idOK && hasCreated {
						// fully qualified with the Created() of the key this very call just loaded
						if cv, isC := resolve(fl["Created"]).(*ssa.Call); isC && methodNameOf(&cv.Call) == "Created" {
							if ex, isE := resolve(receiverOf(&cv.Call)).(*ssa.Extract); isE {
								if lc, isLC := ex.Tuple.(*ssa.Call); isLC && dynamicCallOfParam(lc, "loader") {
									ok = true
								}
							}
						}
						if !ok {
							why = "a KeyMeta whose Created is not the Created() of the key this call just loaded"
						}
					} else if whole > 0 {
						why = "a KeyMeta variable that is also assigned a looked-up meta"
					}
				}
			}
			c.check(ok, "keyCache.GetOrLoadLatest/"+g.Name()+"-meta", u.ipos(i), "KeyMeta{ID: id}", "a latest-lookup hands "+g.Name()+" "+why+" instead of the latest marker KeyMeta{ID: id}: when the reload returns a newer key it is filed under the older key's (id, created) — records written under the older key are then opened with the wrong key and fail to decrypt")
		}
	})
	if n == 0 {
		c.bad("keyCache.GetOrLoadLatest/meta", u.pos(f.Pos()), "no getFresh/load/write call with a KeyMeta found")
	}
}

// ---------------------------------------------------------------------------------------------
// C07.atomic-value-single-type

// atomicValueStoresOfInterfaces: (*atomic.Value).Store calls in f whose operand has an interface static type: the
// concrete types stored can differ from call to call, and atomic.Value panics on the first store of a different type.
func atomicValueStoresOfInterfaces(f *ssa.Function) []ssa.Instruction {
	var out []ssa.Instruction
	for _, g := range withAnon(f) {
		allInstrs(g, func(i ssa.Instruction) {
			if !staticIs(i, "(*sync/atomic.Value).Store") && !staticIs(i, "(*sync/atomic.Value).Swap") && !staticIs(i, "(*sync/atomic.Value).CompareAndSwap") {
				return
			}
			cc := callOf(i)
			for _, a := range cc.Args[1:] {
				src := a
				if mi, ok := a.(*ssa.MakeInterface); ok {
					src = mi.X
				} else if ci, ok := a.(*ssa.ChangeInterface); ok {
					src = ci.X
				}
				if _, isIface := src.Type().Underlying().(*types.Interface); isIface && !isNilConst(src) {
					out = append(out, i)
				}
			}
		})
	}
	return out
}

func ruleC07AtomicValueSingleType(c *Ctx) {
	u := c.U1
	c.rule("C07.atomic-value-single-type", "no (*atomic.Value).Store/Swap/CompareAndSwap in the SDK is handed a value whose static type is an interface (an error, an any): the concrete type then varies with the input and the second kind of value panics the storing goroutine — expected count on the pinned tree: none; positive example in the self-test fixtures", 0)
	n := 0
	for _, f := range u.RepoFuncs {
		if f.Parent() != nil || f.Pkg == nil || !strings.HasPrefix(f.Pkg.Pkg.Path(), "github.com/godaddy/asherah/") || f.Blocks == nil {
			continue
		}
		for _, i := range atomicValueStoresOfInterfaces(f) {
			n++
			c.CallSites++
			c.bad(trimPkgDirs(shortName(f))+"/atomic.Value.Store", u.ipos(i), "an interface-typed value (e.g. the error of the last decrypt) is stored into an atomic.Value: two inputs that fail with errors of different concrete types make the second Store panic (\"store of inconsistently typed value\") — a malformed record crashes the process instead of yielding an error")
		}
	}
	c.ok("sdk/atomic.Value", "", "no interface-typed store into an atomic.Value")
}
