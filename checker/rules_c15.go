package main

// C15 — generic cache (DESIGN §3 C15). E-PAIR + E-LOCK + E-DOM on the generic bodies of pkg/cache.

import (
	"fmt"
	"go/token"
	"go/types"
	"strings"

	"golang.org/x/tools/go/ssa"
)

func init() {
	register(&propSpec{
		ID:            "C15",
		UsesCallGraph: true,
		Title:         "Generic cache: bounded map with exact eviction notifications, for every policy",
		Explanation: "Structural necessary conditions of C15 on the generic bodies of pkg/cache: (lock) byKey/size/closing and every policy call are touched only with mux held, mutations and policy.Access/Admit/Remove/Victim only with the " +
			"write lock (so Get cannot use RLock); (bijection) in every function map insert ⇔ size++ ⇔ policy.Admit and map delete ⇔ size-- ⇔ policy.Remove travel together on every path; (bounded) Set's insert path passes a " +
			"size == / >= Capacity() test whose full edge evicts (a `>` would admit capacity+1); (callback-exactly-once) evictItem notifies exactly once per path (sync callback or one event), processEvents calls the callback only for " +
			"evictItem events, Delete and Set-update never notify, Close drains before shutdown which waits for the event goroutine; (admit-registers) for EVERY policy implementation whatever Access/Remove look up unconditionally " +
			"(c.keys[item.key], item.parent) is populated on every path of Admit; (no-reentry) the evict callbacks the SDK installs cannot reach a method of a cache synchronously; (list structure) every policy keeps each item on exactly one list with item.parent naming its element: Remove unlinks on every path, " +
			"a push of a value already on a list travels with the unlink of its old element, the element a push returns is recorded before any other list mutation, tinyLFU segment moves re-admit; (removal-notifies / expiry-evicts / " +
			"set-stores-value) entries leave byKey only through evictItem or Delete, an expired entry found by Get is evicted, Set really stores its value; (victim-nonnil) a Victim() result is dereferenced only where emptiness is excluded " +
			"(reports the capacity-0 panic, known finding G13); (lock-balanced) every path pairs and balances mux; (lfu-bucket-matches-count) an item is filed only into a frequency bucket whose frequency equals its new use count (1, or old+1). Victim choice otherwise and sketch arithmetic are not decided.",
		NotDecided:  []string{"which victim LRU/SLRU/TinyLFU choose, and LFU beyond the per-operation bucket invariant (lfu-bucket-matches-count) (value-level)", "lookup-returns-latest-value over operation sequences", "count-min sketch / bloom filter arithmetic", "behaviour at negative capacities (capacities are assumed non-negative; capacity 0 is decided: G13)", "asynchronous callback timing"},
		Assumptions: []string{"generic instantiations are not distinguished (the generic body is analysed once)", "container/list behaves as documented"},
		Tech:        "static analysis: lock-state dataflow, structural pairing (must-pass-through both ways), guarded-by-condition and per-implementation Admit-populates-what-Access/Remove-index contract on the SSA of the generic bodies",
		NeedU1:      true,
		Rules:       []func(*Ctx){ruleC15Lock, ruleC15Bijection, ruleC15Bounded, ruleC15CallbackExactlyOnce, ruleC15AdmitRegisters, ruleC15RegistrationFollowsSegment, ruleC15SegmentFlagFollowsList, ruleC15ListEndsNonEmpty, ruleC15NoReentry, ruleC15RemoveUnlinks, ruleC15RelinkIsAMove, ruleC15ElementRecorded, ruleC15SegmentMoveConserves, ruleC15RemovalNotifies, ruleC15VictimNonNil, ruleC15SetStoresValue, ruleC15SetStampsExpiration, ruleC15ExpirationWrittenOnlyBySet, ruleC15ValuesAreOpaque, ruleC15ReflectAccessorMatchesKind, ruleC15CallbackBoundAtBuild, ruleC15VictimNotEmptyHanded, ruleC15UnlinkBeforeNotify, ruleC15VictimEnd, ruleC15AccessRefreshes, ruleC15SegmentOpsMatchFlag, ruleC15LFUOrderedList, ruleC15ExpiryEvicts, ruleC15LFUBucket, ruleC15LFUBucketImmutable, ruleC15LookupUseAtomic, ruleC15PolicySelection, ruleC15EventLoopLockFree, lockBalancedRule("C15", 8, lockDomSpec{pkgCache, "cache", "mux"}), noWriteToNilledMapRule("C15", pkgCache), nilContradictionRule("C15", false, "github.com/godaddy/asherah/go/appencryption/pkg/cache"), ruleC15FilterGeometryFixed, ruleC15LFUNoEmptyBucket, ruleC15PromotionFlagBeforeRebalance, ruleC15PolicyCapacityIsTheConfigured, ruleC15GetOrPanicGoesThroughGet, ruleC15LFUAdmitStartsAtOne, ruleC15ListHandleBelongsToItsItem},
	})
}

var cachePolicyWrites = map[string]map[string]bool{
	"policy": {"Access": true, "Admit": true, "Remove": true, "Victim": true, "Close": true, "Init": true},
}

func ruleC15Lock(c *Ctx) {
	u := c.U1
	c.rule("C15.lock", "cache[K,V]: byKey, size, closing and policy.* are accessed only with mux held; writes and policy.Access/Admit/Remove/Victim/Close only with the write lock", 30)
	d := newLockDomain(u, pkgCache, "cache", "mux")
	if len(d.funcs) == 0 {
		c.unresolved("cache", "methods of pkg/cache.cache")
		return
	}
	for _, f := range d.funcs {
		c.FuncsAnalysed[shortName(f)] = true
		if f.Name() == "startup" {
			continue // runs on the freshly built object before it is published (called from Build only)
		}
		for _, ga := range guardedAccesses(f, pkgCache, "cache", map[string]bool{"byKey": true, "size": true, "closing": true, "policy": true}, cachePolicyWrites) {
			construct := fmt.Sprintf("%s/%s", trimPkgDirs(shortName(f)), ga.What)
			st := d.stateAt(ga.Instr)
			switch {
			case st == 0:
				c.ok(construct, u.ipos(ga.Instr), "unreachable inside the lock domain")
			case ga.Kind == accWrite && st != lsW:
				c.bad(construct, u.ipos(ga.Instr), "cache state / eviction policy mutated while mux may be "+st.String()+" (write lock required; policy.Access reorders lists)")
			case ga.Kind == accRead && st&lsU != 0:
				c.bad(construct, u.ipos(ga.Instr), "cache state read while mux may be "+st.String())
			default:
				c.ok(construct, u.ipos(ga.Instr), "mux is "+st.String())
			}
		}
	}
	// startup is called only from Build
	if st := u.Method(pkgCache, "cache", "startup"); st != nil {
		cg := newCallGraph(u)
		okc := true
		for _, e := range cg.callersOf(st) {
			if rootFunc(e.From).Name() != "Build" {
				okc = false
			}
		}
		c.check(okc, "cache.startup/callers", u.pos(st.Pos()), "called only from Build (object not yet published)", "startup is called outside Build: its unlocked field writes would race")
	}
	var es []string
	for _, f := range d.funcs {
		es = append(es, f.Name()+":"+d.entry[f].String())
	}
	c.note("C15 cache entry lock states: %v", es)
}

type cacheOps struct {
	insert, sizeInc, admit   []ssa.Instruction
	del, sizeDec, removeCall []ssa.Instruction
}

func collectCacheOps(f *ssa.Function) cacheOps {
	var o cacheOps
	allInstrs(f, func(i ssa.Instruction) {
		switch x := i.(type) {
		case *ssa.MapUpdate:
			if strings.HasSuffix(accessPath(x.Map), ".byKey") {
				o.insert = append(o.insert, i)
			}
		case *ssa.Store:
			if _, fld, ok := fieldAccess(x.Addr); ok && fld == "size" {
				if b, isB := x.Val.(*ssa.BinOp); isB {
					if k, isC := constOf(b.Y); isC && k.ExactString() == "1" {
						if _, f2, ok2 := fieldAccess(b.X); ok2 && f2 == "size" {
							if b.Op == token.ADD {
								o.sizeInc = append(o.sizeInc, i)
							} else if b.Op == token.SUB {
								o.sizeDec = append(o.sizeDec, i)
							}
						}
					}
				}
			}
		}
		if cc := callOf(i); cc != nil {
			if b, ok := cc.Value.(*ssa.Builtin); ok && b.Name() == "delete" && strings.HasSuffix(accessPath(cc.Args[0]), ".byKey") {
				o.del = append(o.del, i)
			}
			if cc.IsInvoke() && typeIsNamed(cc.Value.Type(), pkgCache, "policy") {
				if _, fld, ok := fieldAccess(cc.Value); ok && fld == "policy" {
					switch cc.Method.Name() {
					case "Admit":
						o.admit = append(o.admit, i)
					case "Remove":
						o.removeCall = append(o.removeCall, i)
					}
				}
			}
		}
	})
	return o
}

// travelTogether: on every path through f, a is executed iff b is (a dominates b and every path from a to return passes
// b, or the other way round).
func travelTogether(a, b ssa.Instruction) bool {
	one := func(x, y ssa.Instruction) bool {
		if !instrDominates(x, y) {
			return false
		}
		ok, _ := mustPass(x.Block(), indexOf(x)+1, func(i ssa.Instruction) bool { return i == y }, nil)
		return ok
	}
	return one(a, b) || one(b, a)
}

func ruleC15Bijection(c *Ctx) {
	u := c.U1
	c.rule("C15.bijection", "in every method of cache[K,V]: each byKey insert travels with exactly one size++ and one policy.Admit, each delete(byKey) with exactly one size-- and one policy.Remove, on every path", 2)
	for _, f := range u.RepoFuncs {
		if f.Signature.Recv() == nil || !typeIsNamed(f.Signature.Recv().Type(), pkgCache, "cache") {
			continue
		}
		o := collectCacheOps(f)
		if len(o.insert)+len(o.sizeInc)+len(o.admit)+len(o.del)+len(o.sizeDec)+len(o.removeCall) == 0 {
			continue
		}
		c.FuncsAnalysed[shortName(f)] = true
		name := trimPkgDirs(shortName(f))
		if len(o.insert)+len(o.sizeInc)+len(o.admit) > 0 {
			ok := len(o.insert) == 1 && len(o.sizeInc) == 1 && len(o.admit) == 1
			if ok {
				ok = travelTogether(o.insert[0], o.sizeInc[0]) && travelTogether(o.insert[0], o.admit[0])
			}
			c.check(ok, name+"/insert", u.pos(f.Pos()), "map insert, size++ and policy.Admit travel together", fmt.Sprintf("map insert / size++ / policy.Admit do not travel together (%d/%d/%d sites): size and the policy's lists diverge from the map", len(o.insert), len(o.sizeInc), len(o.admit)))
		}
		if len(o.del)+len(o.sizeDec)+len(o.removeCall) > 0 {
			ok := len(o.del) == 1 && len(o.sizeDec) == 1 && len(o.removeCall) == 1
			if ok {
				ok = travelTogether(o.del[0], o.sizeDec[0]) && travelTogether(o.del[0], o.removeCall[0])
			}
			c.check(ok, name+"/remove", u.pos(f.Pos()), "delete(byKey), size-- and policy.Remove travel together", fmt.Sprintf("delete(byKey) / size-- / policy.Remove do not travel together (%d/%d/%d sites)", len(o.del), len(o.sizeDec), len(o.removeCall)))
		}
	}
}

func ruleC15Bounded(c *Ctx) {
	u := c.U1
	c.rule("C15.bounded", "cache.Set: every path from entry to the byKey insert takes the not-full edge of a `size ==/>= policy.Capacity()` test or passes evict()", 1)
	f := u.Method(pkgCache, "cache", "Set")
	if f == nil {
		c.unresolved("cache.Set", "(*cache[K,V]).Set")
		return
	}
	c.FuncsAnalysed[shortName(f)] = true
	o := collectCacheOps(f)
	if len(o.insert) != 1 {
		c.bad("cache.Set/insert", u.pos(f.Pos()), "expected exactly one byKey insert in Set")
		return
	}
	isCap := func(v ssa.Value) bool {
		cv, ok := strip(v).(*ssa.Call)
		return ok && cv.Call.IsInvoke() && cv.Call.Method.Name() == "Capacity"
	}
	isSize := func(v ssa.Value) bool { _, fld, ok := fieldAccess(strip(v)); return ok && fld == "size" }
	// fullTest returns (isTest, fullWhenTrue)
	fullTest := func(v ssa.Value) (bool, bool) {
		b, ok := v.(*ssa.BinOp)
		if !ok {
			return false, false
		}
		var op token.Token
		switch {
		case isSize(b.X) && isCap(b.Y):
			op = b.Op
		case isCap(b.X) && isSize(b.Y):
			switch b.Op { // mirror
			case token.LEQ:
				op = token.GEQ
			case token.GTR:
				op = token.LSS
			case token.EQL, token.NEQ:
				op = b.Op
			default:
				return false, false
			}
		default:
			return false, false
		}
		switch op {
		case token.EQL, token.GEQ:
			return true, true
		case token.NEQ, token.LSS:
			return true, false
		}
		return false, false // `>` / `<=`: admits capacity+1
	}
	found, tr := pathSearchAt(f.Blocks[0], 0, func(i ssa.Instruction) pathAction {
		if g := staticCallee(i); g != nil && g.Name() == "evict" {
			return pathStop
		}
		if i == o.insert[0] {
			return pathFound
		}
		return pathContinue
	}, func(from, to *ssa.BasicBlock) bool {
		for _, fct := range edgeFacts(from, to) {
			if is, fullWhenTrue := fullTest(fct.V); is && fct.True != fullWhenTrue {
				return false // known not full
			}
		}
		return true
	})
	if found {
		c.bad("cache.Set/bounded", u.ipos(o.insert[0]), "a new entry can be inserted without the cache being known below capacity and without evicting first (the map can exceed its capacity)", u.tracePositions(tr)...)
	} else {
		c.ok("cache.Set/bounded", u.ipos(o.insert[0]), "insert only after `size ==/>= Capacity()` was false or evict() ran")
	}
}

func ruleC15CallbackExactlyOnce(c *Ctx) {
	u := c.U1
	c.rule("C15.callback-exactly-once", "evictItem notifies exactly once on every path (sync: one onEvictCallback call; async: one event send); processEvents calls the callback only for evictItem events; Delete/Set never notify directly; Close calls shutdown after the drain loop and shutdown waits for the event goroutine", 6)
	ev := u.Method(pkgCache, "cache", "evictItem")
	if ev == nil {
		c.unresolved("cache.evictItem", "(*cache[K,V]).evictItem")
		return
	}
	c.FuncsAnalysed[shortName(ev)] = true
	isCallback := func(i ssa.Instruction) bool {
		cc := callOf(i)
		if cc == nil || cc.IsInvoke() || cc.StaticCallee() != nil {
			return false
		}
		_, fld, ok := fieldAccess(cc.Value)
		return ok && fld == "onEvictCallback"
	}
	isEventSend := func(i ssa.Instruction) bool {
		s, ok := i.(*ssa.Send)
		if !ok {
			return false
		}
		_, fld, ok2 := fieldAccess(s.Chan)
		return ok2 && fld == "events"
	}
	isNotify := func(i ssa.Instruction) bool { return isCallback(i) || isEventSend(i) }
	ok1, tr := mustPass(ev.Blocks[0], 0, isNotify, nil)
	twice := false
	allInstrs(ev, func(i ssa.Instruction) {
		if !isNotify(i) {
			return
		}
		found, _ := pathSearch(i, func(j ssa.Instruction) pathAction {
			if isNotify(j) {
				return pathFound
			}
			return pathContinue
		}, nil)
		if found {
			twice = true
		}
	})
	switch {
	case !ok1:
		c.bad("cache.evictItem/notify", u.pos(ev.Pos()), "an entry can leave the cache without any eviction notification (the key it holds is never closed)", u.tracePositions(tr)...)
	case twice:
		c.bad("cache.evictItem/notify", u.pos(ev.Pos()), "an entry can be notified twice on one path (double close)")
	default:
		c.ok("cache.evictItem/notify", u.pos(ev.Pos()), "exactly one notification on every path")
	}
	// the notification carries the evicted item's own key/value
	carry := true
	allInstrs(ev, func(i ssa.Instruction) {
		if isCallback(i) {
			cc := callOf(i)
			if !strings.HasSuffix(accessPath(cc.Args[0]), "P:item.key") || !strings.HasSuffix(accessPath(cc.Args[1]), "P:item.value") {
				carry = false
			}
		}
	})
	c.check(carry, "cache.evictItem/payload", u.pos(ev.Pos()), "callback(item.key, item.value)", "the eviction callback does not receive the evicted item's own key and value")
	// processEvents
	if pe := u.Method(pkgCache, "cache", "processEvents"); pe == nil {
		c.unresolved("cache.processEvents", "method")
	} else {
		c.FuncsAnalysed[shortName(pe)] = true
		n := 0
		good := true
		allInstrs(pe, func(i ssa.Instruction) {
			if !isCallback(i) {
				return
			}
			n++
			// guarded by event.event == evictItem (const 0)
			g := false
			for _, fct := range factsAt(i.Block()) {
				if b, ok := fct.V.(*ssa.BinOp); ok && ((b.Op == token.EQL && fct.True) || (b.Op == token.NEQ && !fct.True)) {
					if k, isC := constOf(b.Y); isC && k.ExactString() == "0" {
						if _, fld, isF := fieldAccess(strip(b.X)); isF && fld == "event" {
							g = true
						}
					}
				}
			}
			if !g {
				good = false
			}
		})
		c.check(n == 1 && good, "cache.processEvents/callback", u.pos(pe.Pos()), "one callback call, only for evictItem events", "processEvents does not call the callback exactly once per evictItem event")
	}
	// Delete / Set do not notify directly
	for _, m := range []string{"Delete", "Set"} {
		f := u.Method(pkgCache, "cache", m)
		if f == nil {
			continue
		}
		bad := false
		allInstrs(f, func(i ssa.Instruction) {
			if isNotify(i) {
				bad = true
			}
			if m == "Delete" {
				if g := staticCallee(i); g != nil && (g.Name() == "evict" || g.Name() == "evictItem") {
					bad = true
				}
			}
		})
		c.check(!bad, "cache."+m+"/no-direct-notify", u.pos(f.Pos()), "no eviction notification outside evictItem", m+" fires eviction notifications itself (an entry that is deleted/updated, not evicted, would be reported; or twice)")
	}
	// Close: shutdown after drain loop; shutdown waits
	if cl := u.Method(pkgCache, "cache", "Close"); cl != nil {
		ok := false
		allInstrs(cl, func(i ssa.Instruction) {
			if g := staticCallee(i); g != nil && g.Name() == "shutdown" {
				ok = afterDrain(i)
			}
		})
		c.check(ok, "cache.Close/shutdown-after-drain", u.pos(cl.Pos()), "shutdown only after the drain loop exited", "the event goroutine is shut down before all entries were drained: their callbacks are lost")
	}
	if sh := u.Method(pkgCache, "cache", "shutdown"); sh != nil {
		var send, wait ssa.Instruction
		allInstrs(sh, func(i ssa.Instruction) {
			if isEventSend(i) {
				send = i
			}
			if staticIs(i, "(*sync.WaitGroup).Wait") {
				wait = i
			}
		})
		c.check(send != nil && wait != nil && instrDominates(send, wait), "cache.shutdown/waits", u.pos(sh.Pos()), "sends closeCache, then waits for the event goroutine", "shutdown does not wait for the event goroutine after telling it to stop: pending callbacks may never run")
	}
}

// ---------------------------------------------------------------------------------------------
// admit-registers

// registration targets used by Access/Remove of a policy type: "keys" (map field indexed by item.key) and "parent"
// (item.parent dereferenced).
func policyLookups(u *Universe, n *types.Named) map[string]string {
	out := map[string]string{}
	for _, m := range []string{"Access", "Remove"} {
		f := u.MethodOf(n, m)
		if f == nil || f.Blocks == nil {
			continue
		}
		seen := map[*ssa.Function]bool{}
		var scan func(g *ssa.Function, itemParam int)
		scan = func(g *ssa.Function, itemParam int) {
			if seen[g] || g.Blocks == nil {
				return
			}
			seen[g] = true
			allInstrs(g, func(i ssa.Instruction) {
				switch x := i.(type) {
				case *ssa.Lookup:
					if _, fld, ok := fieldAccess(x.X); ok && !x.CommaOk {
						if strings.HasSuffix(accessPath(x.Index), ".key") {
							out["map:"+fld] = trimPkgDirs(shortName(g))
						}
					}
				case *ssa.FieldAddr:
					if fieldName(x.X.Type(), x.Field) == "parent" && itemParam < len(g.Params) && strip(x.X) == ssa.Value(g.Params[itemParam]) {
						// read of item.parent
						if refs := x.Referrers(); refs != nil {
							for _, r := range *refs {
								if ld, ok := r.(*ssa.UnOp); ok && ld.Op == token.MUL {
									out["parent"] = trimPkgDirs(shortName(g))
								}
							}
						}
					}
				}
				// same-receiver helper taking the item
				if h := staticCallee(i); h != nil && h.Signature.Recv() != nil && g.Signature.Recv() != nil && types.Identical(h.Signature.Recv().Type(), g.Signature.Recv().Type()) {
					cc := callOf(i)
					for k, a := range cc.Args {
						if itemParam < len(g.Params) && strip(a) == ssa.Value(g.Params[itemParam]) {
							scan(h, k)
						}
					}
				}
			})
		}
		scan(f, 1)
	}
	return out
}

// registersOnAllPaths: every path of g from entry to return registers `target` for the item parameter.
func registersOnAllPaths(u *Universe, g *ssa.Function, itemParam int, target string, depth int) bool {
	if g == nil || g.Blocks == nil || depth > 5 || itemParam >= len(g.Params) {
		return false
	}
	item := ssa.Value(g.Params[itemParam])
	reg := func(i ssa.Instruction) bool {
		switch x := i.(type) {
		case *ssa.MapUpdate:
			if strings.HasPrefix(target, "map:") {
				if _, fld, ok := fieldAccess(x.Map); ok && "map:"+fld == target && strings.HasSuffix(accessPath(x.Key), ".key") {
					return true
				}
			}
		case *ssa.Store:
			if target == "parent" {
				if fa, ok := x.Addr.(*ssa.FieldAddr); ok && fieldName(fa.X.Type(), fa.Field) == "parent" {
					if strip(fa.X) == item {
						return true
					}
					// item is the wrapper here: the parent of the item embedded in it
					if wb, wf, isW := fieldAccess(strip(fa.X)); isW && wf == "cacheItem" && strip(wb) == item {
						return true
					}
				}
			}
		}
		cc := callOf(i)
		if cc == nil {
			return false
		}
		if _, isCall := i.(*ssa.Call); !isCall {
			return false
		}
		args := callArgs(cc)
		for k, a := range args {
			if strip(a) != item {
				// a wrapper literal around the item, handed to a helper of the package
				wrapped := false
				if al := allocOf(a); al != nil && !cc.IsInvoke() {
					if fv, has := litFields(al)["cacheItem"]; has && strip(fv) == item {
						wrapped = true
					}
				}
				if !wrapped {
					continue
				}
			}
			if cc.IsInvoke() {
				// another policy's Admit registers item.parent (checked for every implementation by this same rule)
				if cc.Method.Name() == "Admit" && target == "parent" {
					return true
				}
				continue
			}
			if h := staticCallee(i); h != nil && h.Blocks != nil {
				if h.Name() == "Admit" && target == "parent" && h != g {
					return true
				}
				if registersOnAllPaths(u, h, k, target, depth+1) {
					return true
				}
			}
		}
		return false
	}
	ok, _ := mustPass(g.Blocks[0], 0, reg, nil)
	return ok
}

func ruleC15AdmitRegisters(c *Ctx) {
	u := c.U1
	c.rule("C15.admit-registers", "for every eviction policy implementation, each map indexed by item.key and each item.parent that Access/Remove use without a presence check is populated on every path of Admit", 4)
	// policy implementations: generic named types in pkg/cache with Admit/Access/Remove/Victim methods
	p := u.ByPath[pkgCache]
	if p == nil {
		c.unresolved("pkg/cache", "package")
		return
	}
	pol := u.Iface(pkgCache, "policy")
	if pol == nil {
		c.unresolved("policy", "pkg/cache.policy")
		return
	}
	sc := p.Types.Scope()
	n := 0
	for _, nm := range sc.Names() {
		tn, ok := sc.Lookup(nm).(*types.TypeName)
		if !ok {
			continue
		}
		nt, ok := tn.Type().(*types.Named)
		if !ok || !implementsByName(nt, pol) {
			continue
		}
		if _, isI := nt.Underlying().(*types.Interface); isI {
			continue
		}
		n++
		admit := u.MethodOf(nt, "Admit")
		if admit == nil {
			for k := 0; k < nt.NumMethods(); k++ {
				if nt.Method(k).Name() == "Admit" {
					admit = u.Prog.FuncValue(nt.Method(k))
				}
			}
		}
		lookups := map[string]string{}
		// MethodOf works on instantiable types; for generic types use declared methods
		for _, m := range []string{"Access", "Remove"} {
			for k := 0; k < nt.NumMethods(); k++ {
				if nt.Method(k).Name() == m {
					_ = m
				}
			}
		}
		lookups = policyLookupsGeneric(u, nt)
		name := "cache." + nt.Obj().Name()
		if admit == nil {
			c.unresolved(name+".Admit", "method")
			continue
		}
		c.FuncsAnalysed[shortName(admit)] = true
		if len(lookups) == 0 {
			c.ok(name+"/admit-registers", u.pos(admit.Pos()), "Access/Remove look nothing up unconditionally")
			continue
		}
		for target, where := range lookups {
			ok := registersOnAllPaths(u, admit, 1, target, 0)
			c.check(ok, name+"/admit-registers["+target+"]", u.pos(admit.Pos()), "populated on every path of Admit (used by "+where+")",
				"Admit has a path that does not populate "+strings.TrimPrefix(target, "map:")+" for the admitted item, but "+where+" dereferences it unconditionally: the next Get/Set/Delete/eviction of that key panics")
		}
	}
	if n < 4 {
		c.bad("cache/policies", "", fmt.Sprintf("expected at least 4 policy implementations, found %d", n))
	}
}

// policyLookupsGeneric: policyLookups for generic named types (methods taken from the declaration).
func policyLookupsGeneric(u *Universe, nt *types.Named) map[string]string {
	out := map[string]string{}
	methods := map[string]*ssa.Function{}
	for k := 0; k < nt.NumMethods(); k++ {
		if fn := u.Prog.FuncValue(nt.Method(k)); fn != nil {
			methods[nt.Method(k).Name()] = fn
		}
	}
	for _, m := range []string{"Access", "Remove"} {
		f := methods[m]
		if f == nil || f.Blocks == nil {
			continue
		}
		seen := map[*ssa.Function]bool{}
		var scan func(g *ssa.Function, itemParam int)
		scan = func(g *ssa.Function, itemParam int) {
			if seen[g] || g.Blocks == nil || itemParam >= len(g.Params) {
				return
			}
			seen[g] = true
			item := ssa.Value(g.Params[itemParam])
			allInstrs(g, func(i ssa.Instruction) {
				switch x := i.(type) {
				case *ssa.Lookup:
					if _, fld, ok := fieldAccess(x.X); ok && !x.CommaOk && strings.HasSuffix(accessPath(x.Index), ".key") {
						out["map:"+fld] = trimPkgDirs(shortName(g))
					}
				case *ssa.FieldAddr:
					if fieldName(x.X.Type(), x.Field) == "parent" && strip(x.X) == item {
						if refs := x.Referrers(); refs != nil {
							for _, r := range *refs {
								if ld, ok := r.(*ssa.UnOp); ok && ld.Op == token.MUL && !nilGuardedUse(ld) {
									out["parent"] = trimPkgDirs(shortName(g))
								}
							}
						}
					}
				}
				if h := staticCallee(i); h != nil && h.Blocks != nil && h.Signature.Recv() != nil && g.Signature.Recv() != nil &&
					namedTypeName(h.Signature.Recv().Type()) == namedTypeName(g.Signature.Recv().Type()) {
					for k, a := range callOf(i).Args {
						if strip(a) == item {
							scan(h, k)
						}
					}
				}
			})
		}
		scan(f, 1)
	}
	return out
}

// nilGuardedUse: the loaded pointer is only compared against nil (e.g. lfu.increment's `current == nil`) or used under
// such a guard.
func nilGuardedUse(ld *ssa.UnOp) bool {
	refs := ld.Referrers()
	if refs == nil {
		return true
	}
	for _, r := range *refs {
		if b, ok := r.(*ssa.BinOp); ok && (b.Op == token.EQL || b.Op == token.NEQ) && (isNilConst(b.X) || isNilConst(b.Y)) {
			continue
		}
		in, ok := r.(ssa.Instruction)
		if ok && knownNonNil(ld, in.Block()) {
			continue
		}
		return false
	}
	return true
}

func ruleC15NoReentry(c *Ctx) {
	u := c.U1
	c.rule("C15.no-reentry", "the evict callbacks the SDK installs (key cache onEvict, session cache callback) cannot synchronously reach a method of cache[K,V] (go statements end the critical section)", 2)
	cg := newCallGraph(u)
	n := 0
	for _, f := range u.RepoFuncs {
		allInstrs(f, func(i ssa.Instruction) {
			g := staticCallee(i)
			if g == nil || g.Name() != "WithEvictFunc" {
				return
			}
			cc := callOf(i)
			for cb := range cg.funcValues(cc.Args[1], nil, 0) {
				n++
				c.FuncsAnalysed[shortName(cb)] = true
				reach := reachableSync(cg, cb)
				var hit []string
				for r := range reach {
					if r.Signature.Recv() != nil && typeIsNamed(r.Signature.Recv().Type(), pkgCache, "cache") {
						hit = append(hit, trimPkgDirs(shortName(r)))
					}
				}
				c.check(len(hit) == 0, trimPkgDirs(shortName(cb))+"/no-reentry", u.ipos(i), fmt.Sprintf("%d functions reachable synchronously, none is a cache method", len(reach)),
					"the eviction callback can synchronously call back into a cache ("+strings.Join(hit, ", ")+") while its mux is held: self-deadlock under synchronous eviction")
			}
		})
	}
	if n == 0 {
		c.bad("cache/callbacks", "", "no WithEvictFunc registration found")
	}
}

// reachableSync: reachability that does not follow `go` statements.
func reachableSync(cg *callGraph, start *ssa.Function) map[*ssa.Function]bool {
	seen := map[*ssa.Function]bool{start: true}
	work := []*ssa.Function{start}
	for len(work) > 0 {
		f := work[len(work)-1]
		work = work[:len(work)-1]
		if f.Blocks == nil {
			continue
		}
		allInstrs(f, func(i ssa.Instruction) {
			if _, isGo := i.(*ssa.Go); isGo {
				return
			}
			for t := range cg.calleesAt(i, cgEnv{}) {
				if !seen[t] {
					seen[t] = true
					work = append(work, t)
				}
			}
		})
	}
	return seen
}

// ruleC15RegistrationFollowsSegment: tinyLFU keeps, per key, which segment list owns the item (c.keys[k].parent).
// Every admission of an item into a segment (a sub-policy Admit called from a tinyLFU method) must travel with the map
// update that registers that same list for the item; otherwise Access/Remove later address the wrong list.
func ruleC15RegistrationFollowsSegment(c *Ctx) {
	u := c.U1
	c.rule("C15.registration-follows-segment", "in every method of tinyLFU each call of a segment list's Admit(item) travels (both directions, all paths) with c.keys[item.key] = entry{parent: that list}", 1)
	n := 0
	for _, f := range u.RepoFuncs {
		if f.Signature.Recv() == nil || !typeIsNamed(f.Signature.Recv().Type(), pkgCache, "tinyLFU") {
			continue
		}
		allInstrs(f, func(i ssa.Instruction) {
			cc := callOf(i)
			if cc == nil || methodNameOf(cc) != "Admit" {
				return
			}
			if _, isCall := i.(*ssa.Call); !isCall {
				return
			}
			args := callArgs(cc)
			if len(args) != 2 {
				return
			}
			n++
			c.CallSites++
			c.FuncsAnalysed[shortName(f)] = true
			list, item := args[0], args[1]
			construct := trimPkgDirs(shortName(f)) + "/segment-admit"
			var reg ssa.Instruction
			allInstrs(f, func(j ssa.Instruction) {
				mu, ok := j.(*ssa.MapUpdate)
				if !ok {
					return
				}
				if _, fld, isF := fieldAccess(mu.Map); !isF || fld != "keys" {
					return
				}
				if accessPath(mu.Key) != accessPath(item)+".key" {
					return
				}
				// the stored entry's parent is the same list
				fl := map[string]ssa.Value{}
				if a := allocOf(mu.Value); a != nil {
					fl = litFields(a)
				} else if ld, isLd := mu.Value.(*ssa.UnOp); isLd {
					fl = litFields(ld.X)
				}
				if p, has := fl["parent"]; has && (resolve(p) == resolve(list) || accessPath(p) == accessPath(list)) {
					reg = j
				}
			})
			ok := reg != nil && travelTogether(i, reg)
			c.check(ok, construct, u.ipos(i), "registration of the item to this list travels with the admission", "an item is admitted to a segment list without (on the same paths) registering that list as its owner in c.keys: later Access/Remove go to the wrong list — ghost entries, missing or duplicate eviction callbacks, map larger than capacity")
		})
	}
	if n == 0 {
		c.bad("tinyLFU/segment-admits", "", "no segment admissions found in tinyLFU")
	}
}

// ruleC15ListEndsNonEmpty: every (*list.List).Back()/Front() whose result is dereferenced, removed or moved must be
// protected by a nil test of the result or by a strict `L.Len() > x` (x a capacity, non-negative) / `L.Len() != 0` test
// of the same list. `Len() >= capacity` does not protect when the capacity is 0.
func ruleC15ListEndsNonEmpty(c *Ctx) {
	u := c.U1
	c.rule("C15.list-ends-nonempty", "in pkg/cache every use (field access, Remove/Move*, Next/Prev) of a list.Back()/Front() result is dominated by a nil test of it or by a strict Len() > … / Len() != 0 test of the same list", 4)
	for _, f := range u.RepoFuncs {
		if f.Pkg == nil || f.Pkg.Pkg.Path() != pkgCache {
			continue
		}
		allInstrs(f, func(i ssa.Instruction) {
			cv, ok := i.(*ssa.Call)
			if !ok {
				return
			}
			g := cv.Call.StaticCallee()
			if g == nil || (funcFullName(g) != "(*container/list.List).Back" && funcFullName(g) != "(*container/list.List).Front") {
				return
			}
			listPath := accessPath(cv.Call.Args[0])
			al := aliasClosure(cv, nil)
			for v := range al {
				refs := v.Referrers()
				if refs == nil {
					continue
				}
				for _, r := range *refs {
					deref := false
					switch y := r.(type) {
					case *ssa.FieldAddr:
						deref = y.X == v
					case *ssa.Field:
						deref = true
					case ssa.CallInstruction:
						if h := y.Common().StaticCallee(); h != nil && h.Pkg != nil && h.Pkg.Pkg.Path() == "container/list" {
							deref = true
						}
					}
					if !deref {
						continue
					}
					c.CallSites++
					c.FuncsAnalysed[shortName(f)] = true
					construct := trimPkgDirs(shortName(f)) + "/" + g.Name() + "-use"
					safe := listElemSafe(v, r.Block(), al, 0)
					// non-emptiness established where the element was taken (Back()/Front() of a non-empty list is not
					// nil) counts as much as where it is used
					for _, blk := range []*ssa.BasicBlock{r.Block(), cv.Block()} {
						if safe {
							break
						}
						for _, fct := range factsAt(blk) {
							b, isB := fct.V.(*ssa.BinOp)
							if !isB {
								continue
							}
							isLen := func(x ssa.Value) bool {
								lc, ok := resolve(x).(*ssa.Call)
								return ok && lc.Call.StaticCallee() != nil && funcFullName(lc.Call.StaticCallee()) == "(*container/list.List).Len" && trimAddr(fct.pathOf(lc.Call.Args[0])) == trimAddr(listPath)
							}
							switch {
							case b.Op == token.GTR && isLen(b.X) && fct.True,
								b.Op == token.LSS && isLen(b.Y) && fct.True,
								b.Op == token.LEQ && isLen(b.X) && !fct.True,
								b.Op == token.GEQ && isLen(b.Y) && !fct.True,
								b.Op == token.NEQ && isLen(b.X) && isConstInt(b.Y, 0) && fct.True,
								b.Op == token.EQL && isLen(b.X) && isConstInt(b.Y, 0) && !fct.True:
								safe = true
							}
						}
					}
					c.check(safe, construct, u.ipos(r), "protected by a nil test or a strict Len() > … test of the same list", "the end element of a list is used without a nil test or a strict non-emptiness test of that list (`Len() >= capacity` does not help when the capacity is 0): an operation sequence on a small cache panics with a nil dereference")
				}
			}
		})
	}
}

// listElemSafe: the list element v (derived from a Back()/Front() result, set al) is non-nil at block `at`: tested
// directly, or a phi all of whose incoming values are safe on their edges (values not derived from Back/Front — freshly
// pushed elements — are non-nil).
func listElemSafe(v ssa.Value, at *ssa.BasicBlock, al valueSet, depth int) bool {
	if depth > 6 {
		return false
	}
	if knownNonNil(v, at) {
		return true
	}
	phi, ok := v.(*ssa.Phi)
	if !ok {
		return false
	}
	for k, e := range phi.Edges {
		if !al[e] && !al[strip(e)] {
			continue // not an end-of-list lookup (e.g. the element returned by PushFront / InsertAfter)
		}
		if e == v {
			continue
		}
		pred := phi.Block().Preds[k]
		ok := listElemSafe(e, pred, al, depth+1)
		if !ok {
			ap := accessPath(e)
			for _, fct := range edgeFacts(pred, phi.Block()) {
				if x, isNil, isT := nilTest(fct); isT && !isNil && accessPath(x) == ap {
					ok = true
				}
			}
		}
		if !ok {
			return false
		}
	}
	return true
}

// ruleC15SegmentFlagFollowsList: SLRU keeps per item a `protected` flag that says which of its two lists holds the item;
// Access/Remove pick the list by the flag. Every insertion of an slruItem into the probation (protected) list must
// travel with protected=false (true) for that item — set on the same paths, or by the literal that creates it.
func ruleC15SegmentFlagFollowsList(c *Ctx) {
	u := c.U1
	c.rule("C15.segment-flag-follows-list", "in every method of slru each PushFront/PushBack of an item onto probationList (protectedList) travels with that item's protected flag being false (true): a literal created with it, or a store on the same paths", 3)
	n := 0
	for _, ps := range policyPushSites(u) {
		if ps.push.Parent().Signature.Recv() == nil || !typeIsNamed(ps.push.Parent().Signature.Recv().Type(), pkgCache, "slru") {
			continue
		}
		ps := ps
		eval := func(f *ssa.Function, i ssa.Instruction, pushed ssa.Value) (good, applies bool, construct, listField string, want bool) {
			cv, ok := ps.push.(*ssa.Call)
			if !ok || cv.Call.StaticCallee() == nil {
				return
			}
			fn := funcFullName(cv.Call.StaticCallee())
			if fn != "(*container/list.List).PushFront" && fn != "(*container/list.List).PushBack" {
				return
			}
			_, lf, isF := fieldAccess(cv.Call.Args[0])
			if !isF || (lf != "probationList" && lf != "protectedList") {
				return
			}
			listField = lf
			want = listField == "protectedList"
			applies = true
			c.FuncsAnalysed[shortName(f)] = true
			construct = trimPkgDirs(shortName(f)) + "/push-" + listField
			item := pushed
			// created by a literal with the right flag
			if a := allocOf(item); a != nil {
				if fv, has := litFields(a)["protected"]; has {
					if k, isC := constOf(fv); isC && (k.ExactString() == "true") == want {
						good = true
					}
				} else if !want {
					good = true // zero value: false
				}
			}
			if !good {
				ip := accessPath(item)
				allInstrs(f, func(j ssa.Instruction) {
					st, isSt := j.(*ssa.Store)
					if !isSt {
						return
					}
					base, fld, isFA := fieldAccess(st.Addr)
					if !isFA || fld != "protected" || accessPath(base) != ip {
						return
					}
					if k, isC := constOf(st.Val); isC && (k.ExactString() == "true") == want && travelTogether(j, i) {
						good = true
					}
				})
			}
			return
		}
		report := func(good bool, construct, listField string, want bool, i ssa.Instruction) {
			n++
			c.CallSites++
			c.check(good, construct, u.ipos(i), fmt.Sprintf("item.protected = %v travels with the insertion", want), fmt.Sprintf("an item is linked into the %s without its protected flag being set to %v on the same paths: Access/Remove then address the other list (container/list ignores foreign elements), the item is never unlinked — repeated eviction callbacks for it, size drifts, the map outgrows its capacity", listField, want))
		}
		good, applies, construct, listField, want := eval(ps.fn, ps.at, ps.v)
		switch {
		case !applies:
		case good || len(ps.alts) == 0:
			report(good, construct, listField, want, ps.at)
		default:
			for _, alt := range ps.alts {
				if g2, a2, c2, l2, w2 := eval(alt.fn, alt.at, alt.v); a2 {
					report(g2, c2, l2, w2, alt.at)
				}
			}
		}

	}
	if n == 0 {
		c.bad("slru/pushes", "", "no list insertions found in slru")
	}
}
