package main

// C08 — a key in use is never destroyed underneath its user (DESIGN §3 C08). E-LOCK + who-may-call.

import (
	"fmt"
	"go/token"
	"strings"

	"golang.org/x/tools/go/ssa"
)

func init() {
	register(&propSpec{
		ID:    "C08",
		Title: "A key in use is never destroyed underneath its user, under any schedule",
		Explanation: "Structural necessary conditions of C08, decided for every method of keyCache/cachedCryptoKey and every SDK function: " +
			"(cache-state-under-lock) keyCache.keys and keyCache.latest are read only with c.rw held and mutated only with the write lock, via a lock-state " +
			"dataflow with call-site-derived entry states for private helpers; (handout-under-lock) every reference-count increment of a key that came out of a " +
			"cache lookup happens in the same critical section as the lookup — no path from lookup to increment passes an unlock; (refcount-protocol) destruction is " +
			"decided on the result of the atomic decrement, the wrapped CryptoKey.Close is called only from cachedCryptoKey.Close, the count starts at 1; " +
			"(every-handout-counted) every non-nil *cachedCryptoKey returned by a keyCacher implementation is the result of tracked()/newCachedCryptoKey(). " +
			"(teardown-waits, shared with C16) a cached session evicted under session-cache churn is torn down only after a wait loop saw no holders. These are the windows a schedule can hit; the schedules themselves are not enumerated.",
		NotDecided:  []string{"all interleavings of goroutines", "asynchronous eviction timing in pkg/cache", "correctness of sync/atomic and sync.RWMutex", "operations racing with the close of their own session/factory (excluded by the property)"},
		Assumptions: []string{"evictions of key-cache entries happen only inside keys.Set / keys.Close (pkg/cache has no expiry configured for key caches)", "String() methods reached only through fmt are diagnostic (exempt, listed)"},
		Tech:        "static analysis: lock-state dataflow per mutex on SSA with inferred helper entry states; path search for unlock between lookup and refcount increment; who-may-call",
		NeedU1:      true,
		Rules:       []func(*Ctx){ruleC01OldKeysAddressable, ruleC08CacheStateUnderLock, ruleC08HandoutUnderLock, ruleC08RefcountProtocol, ruleC08EveryHandoutCounted, ruleC08StorageDoesNotRelease, ruleC05MergeIdentity, ruleC05ReloadRefreshes, ruleC09DisplacedEntry, ruleC09KeyCacheNeverDeletes, ruleC08SharedCacheNotClosedBySession, ruleC16TeardownWaits, ruleC15CallbackExactlyOnce, ruleC15RemovalNotifies, ruleC15RemoveUnlinks, ruleC15RelinkIsAMove, ruleC15ElementRecorded, ruleC15SegmentMoveConserves, ruleC15RegistrationFollowsSegment, lostUpdateRule("C16", "github.com/godaddy/asherah/go/appencryption"), lockBalancedRule("C08", 8, lockDomSpec{pkgApp, "keyCache", "rw"}), ruleC08SharedCacheCreatedOnlyWhenFlagged, ruleC15SegmentFlagFollowsList, ruleC08SessionCloseOnlyClosesEncryption, ruleC15ListHandleBelongsToItsItem},
	})
}

var keyCacheWriteMethods = map[string]map[string]bool{
	"keys": {"Set": true, "Delete": true, "Close": true},
}

func ruleC08CacheStateUnderLock(c *Ctx) {
	u := c.U1
	c.rule("C08.cache-state-under-lock", "keyCache.keys / keyCache.latest: reads only with c.rw held (R or W), mutations (keys.Set/Delete, latest[...]=, field stores) only with the write lock; helpers inherit the state of their call sites", 12)
	d := newLockDomain(u, pkgApp, "keyCache", "rw")
	if len(d.funcs) == 0 {
		c.unresolved("keyCache", "methods of appencryption.keyCache")
		return
	}
	exempt := map[string]string{
		"String": "diagnostic only: keys.Len/Capacity reached lazily through a logger (DESIGN §1.7)",
		"Close":  "keys.Close() in keyCache.Close: racing with the close of one's own cache is outside C08",
	}
	for _, f := range d.funcs {
		c.FuncsAnalysed[shortName(f)] = true
		for _, ga := range guardedAccesses(f, pkgApp, "keyCache", map[string]bool{"keys": true, "latest": true}, keyCacheWriteMethods) {
			construct := fmt.Sprintf("%s/%s", shortName(f), ga.What)
			if why, ok := exempt[f.Name()]; ok {
				c.ok(construct, u.ipos(ga.Instr), "exempt: "+why)
				continue
			}
			if accessPath(baseOfAccess(ga.Instr)) != "" && !strings.HasPrefix(receiverBasePath(ga.Instr), recvPathOf(f)) {
				c.undecided(construct, u.ipos(ga.Instr), "guarded field accessed through something other than the method receiver")
				continue
			}
			st := d.stateAt(ga.Instr)
			switch {
			case st == 0:
				c.ok(construct, u.ipos(ga.Instr), "unreachable inside the lock domain (no reachable caller)")
			case ga.Kind == accWrite && st != lsW:
				c.bad(construct, u.ipos(ga.Instr), "mutation of cache state while c.rw may be "+st.String()+" (write lock required)")
			case ga.Kind == accRead && st&lsU != 0:
				c.bad(construct, u.ipos(ga.Instr), "read of cache state while c.rw may be "+st.String())
			default:
				c.ok(construct, u.ipos(ga.Instr), "c.rw is "+st.String())
			}
		}
	}
	var es []string
	for _, f := range d.funcs {
		es = append(es, fmt.Sprintf("%s:%s", f.Name(), d.entry[f]))
	}
	c.note("C08 keyCache entry lock states: %v", es)
}

// baseOfAccess / receiverBasePath: the base pointer of the FieldAddr behind a guarded access.
func baseOfAccess(i ssa.Instruction) ssa.Value {
	switch x := i.(type) {
	case *ssa.Store:
		if fa, ok := x.Addr.(*ssa.FieldAddr); ok {
			return fa.X
		}
	case *ssa.UnOp:
		if fa, ok := x.X.(*ssa.FieldAddr); ok {
			return fa.X
		}
	case *ssa.MapUpdate:
		if ld, ok := x.Map.(*ssa.UnOp); ok {
			if fa, ok := ld.X.(*ssa.FieldAddr); ok {
				return fa.X
			}
		}
	case ssa.CallInstruction:
		cc := x.Common()
		var v ssa.Value
		if cc.IsInvoke() {
			v = cc.Value
		} else if len(cc.Args) > 0 {
			v = cc.Args[0]
		}
		if ld, ok := v.(*ssa.UnOp); ok {
			if fa, ok := ld.X.(*ssa.FieldAddr); ok {
				return fa.X
			}
		}
		if fa, ok := v.(*ssa.FieldAddr); ok {
			return fa.X
		}
	}
	return nil
}

func receiverBasePath(i ssa.Instruction) string {
	b := baseOfAccess(i)
	if b == nil {
		return ""
	}
	return accessPath(b)
}

func ruleC08HandoutUnderLock(c *Ctx) {
	u := c.U1
	c.rule("C08.handout-under-lock", "every tracked()/increment() of a key obtained from a cache lookup (getFresh/read/load) runs with c.rw held and no path from the lookup to the increment passes an unlock of c.rw", 4)
	d := newLockDomain(u, pkgApp, "keyCache", "rw")
	tracked := u.Func(pkgApp, "tracked")
	incr := u.Method(pkgApp, "cachedCryptoKey", "increment")
	if tracked == nil || incr == nil {
		c.unresolved("tracked/increment", "appencryption.tracked, (*cachedCryptoKey).increment")
		return
	}
	for _, f := range d.funcs {
		rp := recvPathOf(f)
		allInstrs(f, func(i ssa.Instruction) {
			g := staticCallee(i)
			if g != tracked && g != incr {
				return
			}
			if _, ok := i.(*ssa.Call); !ok {
				return
			}
			c.CallSites++
			construct := shortName(f) + "/" + g.Name()
			arg := callOf(i).Args[0]
			// origin of the key: which lookup produced it
			src := lookupOrigins(arg)
			if len(src) == 0 {
				// a key created in this call (newCacheEntry(...).key): nothing else can have evicted it yet
				if fromNewEntry(arg) {
					st := d.stateAt(i)
					c.check(st != 0 && st&lsU == 0, construct, u.ipos(i), "key of an entry created in this critical section; c.rw is "+st.String(), "reference taken on a freshly cached key while c.rw may be "+st.String())
					return
				}
				c.undecided(construct, u.ipos(i), "cannot determine which cache lookup produced the key being reference-counted: "+accessPath(arg))
				return
			}
			st := d.stateAt(i)
			if st == 0 || st&lsU != 0 {
				c.bad(construct, u.ipos(i), "the reference count is incremented while c.rw may be "+st.String()+": a concurrent eviction can close the key between lookup and increment")
				return
			}
			for _, lk := range src {
				found, tr := pathSearch(lk, func(j ssa.Instruction) pathAction {
					if j == i {
						return pathStop
					}
					if op, ok := d.lockOp(j, rp); ok && op == lsU {
						// an unlock after the lookup: can we still reach the increment from here?
						if reaches(j, i) {
							return pathFound
						}
					}
					return pathContinue
				}, nil)
				if found {
					c.bad(construct, u.ipos(i), "c.rw is released between the cache lookup and the reference-count increment (the lookup result is used across critical sections)", u.tracePositions(tr)...)
					return
				}
			}
			c.ok(construct, u.ipos(i), fmt.Sprintf("lookup and increment in one critical section (c.rw %s, %d lookup origin(s))", st, len(src)))
		})
	}
}

// reaches: instruction b is reachable from instruction a.
func reaches(a, b ssa.Instruction) bool {
	if a.Block() == b.Block() && indexOf(a) < indexOf(b) {
		return true
	}
	for _, s := range a.Block().Succs {
		if blockReaches(s, b.Block()) {
			return true
		}
	}
	return false
}

// lookupOrigins: the call instructions (getFresh/read/load/keys.Get) whose result flows into v.
func lookupOrigins(v ssa.Value) []ssa.Instruction {
	var out []ssa.Instruction
	seen := map[ssa.Value]bool{}
	var walk func(v ssa.Value)
	walk = func(v ssa.Value) {
		v = strip(v)
		if seen[v] {
			return
		}
		seen[v] = true
		switch x := v.(type) {
		case *ssa.Phi:
			for _, e := range x.Edges {
				walk(e)
			}
		case *ssa.Extract:
			if call, ok := x.Tuple.(*ssa.Call); ok {
				if f := staticCallee(call); f != nil {
					switch f.Name() {
					case "getFresh", "read", "load":
						out = append(out, call)
						return
					}
				}
				if isKeysCall(call, "Get") || isKeysCall(call, "GetOrPanic") {
					out = append(out, call)
				}
			}
		case *ssa.Call:
			if f := staticCallee(x); f != nil && f.Name() == "tracked" {
				walk(x.Call.Args[0])
			}
		case *ssa.UnOp:
			if x.Op == token.MUL {
				switch a := x.X.(type) {
				case *ssa.Alloc:
					for _, s := range localStores(a) {
						walk(s)
					}
				case *ssa.FieldAddr:
					walk(a.X)
				}
			}
		case *ssa.Field:
			walk(x.X)
		case *ssa.Alloc:
			for _, s := range localStores(x) {
				walk(s)
			}
		}
	}
	walk(v)
	return out
}

func fromNewEntry(v ssa.Value) bool {
	found := false
	seen := map[ssa.Value]bool{}
	var walk func(v ssa.Value)
	walk = func(v ssa.Value) {
		v = strip(v)
		if seen[v] {
			return
		}
		seen[v] = true
		switch x := v.(type) {
		case *ssa.Call:
			if f := staticCallee(x); f != nil && f.Name() == "newCacheEntry" {
				found = true
			}
		case *ssa.UnOp:
			if x.Op == token.MUL {
				switch a := x.X.(type) {
				case *ssa.Alloc:
					for _, s := range localStores(a) {
						walk(s)
					}
				case *ssa.FieldAddr:
					walk(a.X)
				}
			}
		case *ssa.Field:
			walk(x.X)
		case *ssa.Alloc:
			for _, s := range localStores(x) {
				walk(s)
			}
		case *ssa.Phi:
			for _, e := range x.Edges {
				walk(e)
			}
		}
	}
	walk(v)
	return found
}

func ruleC08RefcountProtocol(c *Ctx) {
	u := c.U1
	c.rule("C08.refcount-protocol", "cachedCryptoKey.Close destroys the key only on the edge where the atomic decrement's own result shows no remaining references; the wrapped (*CryptoKey).Close is reachable only from cachedCryptoKey.Close; the count starts at exactly 1 and increment adds exactly 1", 4)
	cl := u.Method(pkgApp, "cachedCryptoKey", "Close")
	if cl == nil {
		c.unresolved("cachedCryptoKey.Close", "(*cachedCryptoKey).Close")
		return
	}
	c.FuncsAnalysed[shortName(cl)] = true
	// (1) destruction decided on the result of Add(-1)
	var dec *ssa.Call
	nAdd := 0
	allInstrs(cl, func(i ssa.Instruction) {
		if staticIs(i, "(*sync/atomic.Int64).Add") {
			nAdd++
			if k, ok := constOf(callOf(i).Args[1]); ok && k.ExactString() == "-1" {
				dec, _ = i.(*ssa.Call)
			}
		}
	})
	var destroy ssa.Instruction
	allInstrs(cl, func(i ssa.Instruction) {
		if staticIs(i, "(*"+pkgInt+".CryptoKey).Close") {
			destroy = i
		}
	})
	switch {
	case dec == nil || nAdd != 1:
		c.bad("cachedCryptoKey.Close/decrement", u.pos(cl.Pos()), "expected exactly one atomic refs.Add(-1) in Close")
	case destroy == nil:
		c.bad("cachedCryptoKey.Close/destroy", u.pos(cl.Pos()), "Close never closes the wrapped CryptoKey")
	default:
		good := false
		for _, fct := range factsAt(destroy.Block()) {
			b, ok := fct.V.(*ssa.BinOp)
			if !ok || strip(b.X) != ssa.Value(dec) {
				continue
			}
			k, isC := constOf(b.Y)
			if !isC {
				continue
			}
			kk := k.ExactString()
			switch {
			case b.Op == token.GTR && kk == "0" && !fct.True,
				b.Op == token.LEQ && kk == "0" && fct.True,
				b.Op == token.EQL && kk == "0" && fct.True,
				b.Op == token.LSS && kk == "1" && fct.True,
				b.Op == token.GEQ && kk == "1" && !fct.True,
				b.Op == token.NEQ && kk == "0" && !fct.True:
				good = true
			}
		}
		if !instrDominates(dec, destroy) {
			good = false
		}
		c.check(good, "cachedCryptoKey.Close/destroy-on-decrement-result", u.ipos(destroy),
			"wrapped key closed only on the edge where refs.Add(-1) returned no remaining references",
			"the wrapped key is destroyed on a condition that is not the atomic decrement's own result reaching zero (a separate Load, or the wrong edge, lets two closers both/neither destroy, or destroys a key still referenced)")
	}
	// (2) who may call the wrapped Close
	for _, f := range u.RepoFuncs {
		allInstrs(f, func(i ssa.Instruction) {
			cc := callOf(i)
			if cc == nil || !staticIs(i, "(*"+pkgInt+".CryptoKey).Close") {
				return
			}
			base, fld, ok := fieldAccess(strip(cc.Args[0]))
			if !ok || fld != "CryptoKey" || !isCachedKeyPtr(base.Type()) {
				return
			}
			c.CallSites++
			c.check(f == cl, shortName(f)+"/wrapped-Close", u.ipos(i), "only cachedCryptoKey.Close closes the wrapped key",
				"the wrapped CryptoKey of a cached key is closed directly, bypassing the reference count: users holding the key get a destroyed secret")
		})
	}
	// (2b) the cache's own reference is released only when the entry leaves the cache: inside keyCache methods a
	// Close() on a key that came out of a cache lookup (not a tracked hand-out) must be followed, on every path, by a
	// keys.Set that replaces the entry under the same id.
	for _, f := range u.RepoFuncs {
		if rootFunc(f).Signature.Recv() == nil || namedTypeName(rootFunc(f).Signature.Recv().Type()) != "keyCache" {
			continue
		}
		allInstrs(f, func(i ssa.Instruction) {
			cc := callOf(i)
			if cc == nil || staticCallee(i) != cl {
				return
			}
			if _, isCall := i.(*ssa.Call); !isCall {
				if _, isDefer := i.(*ssa.Defer); !isDefer {
					return
				}
			}
			origins := lookupOrigins(cc.Args[0])
			if len(origins) == 0 {
				return
			}
			c.CallSites++
			construct := shortName(f) + "/cache-reference-release"
			ok := false
			for _, o := range origins {
				if !isKeysCall(o, "Get") {
					continue
				}
				idPath := accessPath(callOf(o).Args[0])
				okp, _ := mustPass(i.Block(), indexOf(i)+1, func(j ssa.Instruction) bool {
					return isKeysCall(j, "Set") && accessPath(callOf(j).Args[0]) == idPath
				}, nil)
				if okp {
					ok = true
				}
			}
			if !ok {
				// the release may live in a helper: then every call site must replace the entry under the same id afterwards
				for _, o := range origins {
					if !isKeysCall(o, "Get") {
						continue
					}
					idArg := strip(callOf(o).Args[0])
					pidx := -1
					for k, p := range f.Params {
						if ssa.Value(p) == idArg {
							pidx = k
						}
					}
					if pidx < 0 {
						continue
					}
					buildCallSiteIndex(f)
					sites := callSiteIndex[f]
					all := len(sites) > 0 && !addressTaken[f]
					for _, site := range sites {
						args := callArgs(site.Common())
						if pidx >= len(args) {
							all = false
							continue
						}
						idPath := accessPath(args[pidx])
						okp, _ := mustPass(site.Block(), indexOf(site)+1, func(j ssa.Instruction) bool {
							return isKeysCall(j, "Set") && accessPath(callOf(j).Args[0]) == idPath
						}, nil)
						if !okp {
							all = false
						}
					}
					if all {
						ok = true
					}
				}
			}
			c.check(ok, construct, u.ipos(i), "released only where the entry is replaced under the same id right after",
				"the cache drops its own reference to a key that stays retrievable from the cache: the secret is destroyed while still cached (later users get 'secret has already been destroyed')")
		})
	}
	// (3) count starts at 1; increment adds 1
	if nk := u.Func(pkgApp, "newCachedCryptoKey"); nk == nil {
		c.unresolved("newCachedCryptoKey", "appencryption.newCachedCryptoKey")
	} else {
		c.FuncsAnalysed[shortName(nk)] = true
		sum, n, cond := int64(0), 0, false
		allInstrs(nk, func(i ssa.Instruction) {
			if staticIs(i, "(*sync/atomic.Int64).Add") {
				n++
				if k, ok := constOf(callOf(i).Args[1]); ok {
					if v, exact := constantInt64(k); exact {
						sum += v
					}
				}
				if i.Block() != nk.Blocks[0] {
					cond = true
				}
			}
			if staticIs(i, "(*sync/atomic.Int64).Store") {
				n++
				if k, ok := constOf(callOf(i).Args[1]); ok {
					if v, exact := constantInt64(k); exact {
						sum = v
					}
				}
			}
		})
		c.check(n >= 1 && sum == 1 && !cond, "newCachedCryptoKey/initial-count", u.pos(nk.Pos()), "reference count initialised to exactly 1 (the cache's reference)",
			fmt.Sprintf("reference count is not initialised to exactly 1 unconditionally (ops=%d, value=%d)", n, sum))
	}
	if inc := u.Method(pkgApp, "cachedCryptoKey", "increment"); inc == nil {
		c.unresolved("increment", "(*cachedCryptoKey).increment")
	} else {
		c.FuncsAnalysed[shortName(inc)] = true
		n, good := 0, false
		allInstrs(inc, func(i ssa.Instruction) {
			if staticIs(i, "(*sync/atomic.Int64).Add") {
				n++
				if k, ok := constOf(callOf(i).Args[1]); ok && k.ExactString() == "1" && i.Block() == inc.Blocks[0] {
					good = true
				}
			}
		})
		c.check(n == 1 && good, "cachedCryptoKey.increment", u.pos(inc.Pos()), "adds exactly 1 atomically, unconditionally", "increment does not add exactly 1 unconditionally")
	}
}

func ruleC08EveryHandoutCounted(c *Ctx) {
	u := c.U1
	c.rule("C08.every-handout-counted", "every non-nil *cachedCryptoKey returned by GetOrLoad/GetOrLoadLatest of every keyCacher implementation is the result of tracked() or newCachedCryptoKey() (so the holder's Close balances an increment)", 7)
	iface := u.Iface(pkgApp, "keyCacher")
	if iface == nil {
		c.unresolved("keyCacher", "appencryption.keyCacher")
		return
	}
	for _, n := range u.Implementations(iface) {
		for _, m := range []string{"GetOrLoad", "GetOrLoadLatest"} {
			f := u.MethodOf(n, m)
			if f == nil || f.Blocks == nil {
				c.unresolved(n.Obj().Name()+"."+m, "method body")
				continue
			}
			c.FuncsAnalysed[shortName(f)] = true
			for _, r := range returnsOf(f) {
				if len(r.Results) == 0 {
					continue
				}
				construct := shortName(f) + "/return"
				bad := uncountedSource(r.Results[0], r.Block(), map[ssa.Value]bool{})
				if bad == nil {
					c.ok(construct, u.ipos(r), "returned key is nil or the result of tracked()/newCachedCryptoKey()")
				} else {
					c.bad(construct, u.ipos(r), "a key is handed out without its reference count being incremented: "+instrTextV(bad))
				}
			}
		}
	}
}

func instrTextV(v ssa.Value) string {
	if i, ok := v.(ssa.Instruction); ok {
		return instrText(i)
	}
	return v.Name() + " " + v.String()
}

// uncountedSource returns a value that can reach the return at block `at` without passing tracked/newCachedCryptoKey
// (nil if none). Phi edges that contradict the branch facts known at `at` are infeasible and skipped.
func uncountedSource(v ssa.Value, at *ssa.BasicBlock, seen map[ssa.Value]bool) ssa.Value {
	if seen[v] {
		return nil
	}
	seen[v] = true
	switch x := v.(type) {
	case *ssa.Const:
		if x.Value == nil {
			return nil
		}
		return v
	case *ssa.Call:
		if f := staticCallee(x); f != nil && f.Pkg != nil && f.Pkg.Pkg.Path() == pkgApp && (f.Name() == "tracked" || f.Name() == "newCachedCryptoKey") {
			return nil
		}
		if f := staticCallee(x); f != nil && f.Blocks != nil && f.Pkg != nil && f.Pkg.Pkg.Path() == pkgApp {
			return uncountedFromHelper(f, 0, seen)
		}
		return v
	case *ssa.Extract:
		if call, ok := x.Tuple.(*ssa.Call); ok {
			if f := staticCallee(call); f != nil && f.Blocks != nil && f.Pkg != nil && f.Pkg.Pkg.Path() == pkgApp {
				switch f.Name() {
				case "getFresh", "read", "load":
					return v // a cache lookup result: the cache's own reference, not counted
				}
				// what the caller knows here about the call's boolean results (`k, ok := helper(); if ok { return k }`)
				assume := map[int]bool{}
				if refs := call.Referrers(); refs != nil {
					for _, r := range *refs {
						if ex, isEx := r.(*ssa.Extract); isEx && ex.Index != x.Index && ex.Type().String() == "bool" {
							if val, known := knownBool(ex, at); known {
								assume[ex.Index] = val
							}
						}
					}
				}
				return uncountedFromHelperAssuming(f, x.Index, seen, assume)
			}
		}
		return v
	case *ssa.Phi:
		for k, e := range x.Edges {
			if !phiEdgeFeasible(x, k, at) {
				continue
			}
			if b := uncountedSource(e, at, seen); b != nil {
				return b
			}
		}
		return nil
	case *ssa.UnOp:
		if x.Op == token.MUL {
			if a, ok := x.X.(*ssa.Alloc); ok {
				if s := reachingStoreInBlock(x); s != nil {
					return uncountedSource(s, at, seen)
				}
				for _, s := range localStores(a) {
					if b := uncountedSource(s, at, seen); b != nil {
						return b
					}
				}
				return nil
			}
		}
	case *ssa.ChangeType:
		return uncountedSource(x.X, at, seen)
	}
	return v
}

// phiEdgeFeasible: the k-th incoming edge of phi is consistent with the branch facts known at block `at`.
func phiEdgeFeasible(phi *ssa.Phi, k int, at *ssa.BasicBlock) bool {
	pred := phi.Block().Preds[k]
	known := append(append([]Fact{}, factsAt(at)...), assumedFacts...)
	var efs []Fact
	efs = append(efs, edgeFacts(pred, phi.Block())...)
	efs = append(efs, factsAt(pred)...)
	for _, ef := range efs {
		for _, kf := range known {
			if ef.V == kf.V && ef.True != kf.True {
				return false
			}
		}
	}
	return true
}

// assumedFacts: what the caller knows about the other results of the helper call under analysis (e.g. `ok` is true where
// the key is used); consulted by phiEdgeFeasible while the helper's returns are examined.
var assumedFacts []Fact

// uncountedFromHelper: result #k of helper h can be a key that did not pass tracked()/newCachedCryptoKey().
func uncountedFromHelper(h *ssa.Function, k int, seen map[ssa.Value]bool) ssa.Value {
	return uncountedFromHelperAssuming(h, k, seen, nil)
}

// uncountedFromHelperAssuming: the same, where the caller knows the boolean results listed in assume (index → value).
func uncountedFromHelperAssuming(h *ssa.Function, k int, seen map[ssa.Value]bool, assume map[int]bool) ssa.Value {
	for _, r := range returnsOf(h) {
		if k >= len(r.Results) {
			continue
		}
		saved := assumedFacts
		feasible := true
		for j, want := range assume {
			if j >= len(r.Results) {
				continue
			}
			rv := returnedValue(r, j)
			if kc, isC := constOf(rv); isC {
				if (kc.ExactString() == "true") != want {
					feasible = false
				}
				continue
			}
			assumedFacts = append(append([]Fact{}, assumedFacts...), normFact(Fact{V: rv, True: want})...)
		}
		var b ssa.Value
		if feasible {
			b = uncountedSource(returnedValue(r, k), r.Block(), seen)
		}
		assumedFacts = saved
		if b != nil {
			return b
		}
	}
	return nil
}
