package main

// C09 — protected key memory is released (DESIGN §3 C09). E-OWN + close-chain rules.

import (
	"fmt"
	"go/token"
	"go/types"
	"regexp"
	"strings"

	"golang.org/x/tools/go/ssa"
)

func init() {
	register(&propSpec{
		ID:    "C09",
		Title: "Protected key memory is released: per call for DRKs, on Close for cached keys",
		Explanation: "Structural necessary conditions of C09, decided on every CFG path of every non-test function of the SDK (U1): " +
			"(key-ownership) every *internal.CryptoKey / securememory.Secret obtained from any call is, on every path to a return " +
			"including every error path, closed, returned to the caller, or handed to a declared consumer (newCacheEntry, newCachedCryptoKey, " +
			"a listed owning field); (handout-release) every *cachedCryptoKey obtained from a keyCacher is closed or returned on every path; " +
			"(drk-scoped) keys generated inside EncryptPayload are closed before return and never escape; (displaced-entry) a cache Set that can " +
			"displace an entry holding another key object releases it first; (entry-written) every cacheEntry built reaches keyCache.write; " +
			"(close-chains) factory/session/simple-cache/generic-cache Close reach every cache and entry they own, and the key cache's generic cache is built with an eviction callback that closes the evicted entry's key on every path. " +
			"This decides the shape of the code (all paths, all call sites), not run-time counts of live secrets.",
		NotDecided: []string{"live-secret counts at quiescent moments", "'exactly once' across goroutines (sync.Once / atomic refcount semantics are trusted)",
			"mlock budget", "timing of `go Remove()` after factory close", "behaviour of user-supplied SecretFactory implementations"},
		Assumptions: []string{"aliases are computed flow-insensitively (can hide a leak, never invent one)",
			"a key passed as an argument is borrowed unless the callee is in the consumer table",
			"sync.Once, sync/atomic and the Go runtime behave as documented"},
		Tech:   "static analysis: must-release ownership dataflow on SSA (all CFG paths incl. error exits) + must-pass-through close-chain rules",
		NeedU1: true,
		NeedU2: true,
		Rules:  []func(*Ctx){deferredCloseSparesReturnedRule("C09", pkgApp, pkgInt), countersCannotWrapRule("C09", 2, pkgApp, pkgCache), ruleC16EveryCloseReleasesOneUsage, ruleC09SimpleCacheStoresWhatItIsGiven, ruleC09KeyOwnership, ruleC09HandoutRelease, ruleC09EntryWritten, ruleC09DisplacedEntry, ruleC09CloseChains, ruleC16TeardownWaits, ruleC16SingleTeardownPath, ruleC16GetAtomic, ruleC08EveryHandoutCounted, ruleC08RefcountProtocol, ruleC08StorageDoesNotRelease, ruleC09KeyCacheNeverDeletes, ruleC08SharedCacheNotClosedBySession, ruleC12TeardownOnce, ruleC20DisabledMeansNever, ruleC15CallbackExactlyOnce, ruleC15RemovalNotifies, ruleC15ExpiryEvicts, ruleC15RemoveUnlinks, ruleC15RelinkIsAMove, ruleC15ElementRecorded, ruleC15SegmentMoveConserves, ruleC15RegistrationFollowsSegment, ruleC18IDsAreDataNotPatterns, ruleC19CloseOnExit, ruleC02CryptoKeyAsGiven, ruleC08SessionCloseOnlyClosesEncryption, ruleC15ListHandleBelongsToItsItem, ruleC20CacheSizedByOwnPolicy, ruleC15Lock},
	})
}

func keyOwnRules() *ownRules {
	return &ownRules{
		identity:  map[string]int{pkgApp + ".tracked": 0},
		isRelease: closeRelease,
		consumers: map[string][]int{
			pkgApp + ".newCacheEntry":      {0},
			pkgApp + ".newCachedCryptoKey": {0},
		},
		consumeFields: map[string]bool{
			"StaticKMS.key":    true, // pkg/kms.NewStatic: the KMS owns its master key until StaticKMS.Close
			"CryptoKey.secret": true, // internal.NewCryptoKey / GenerateKey: the key owns its secret
		},
	}
}

func isCryptoKeyPtr(t types.Type) bool {
	p, ok := types.Unalias(t).(*types.Pointer)
	return ok && typeIsNamed(p.Elem(), pkgInt, "CryptoKey")
}

func isSecretIface(t types.Type) bool { return typeIsNamed(t, pkgSec, "Secret") && !isPtr(t) }

func isPtr(t types.Type) bool { _, ok := types.Unalias(t).(*types.Pointer); return ok }

func isCachedKeyPtr(t types.Type) bool {
	p, ok := types.Unalias(t).(*types.Pointer)
	return ok && typeIsNamed(p.Elem(), pkgApp, "cachedCryptoKey")
}

// calleeLabel gives a short label of what is called (for construct names).
func calleeLabel(i ssa.Instruction) string {
	c := callOf(i)
	if c == nil {
		return "?"
	}
	if c.IsInvoke() {
		return namedTypeName(c.Value.Type()) + "." + c.Method.Name()
	}
	if f := orig(c.StaticCallee()); f != nil {
		return trimPkgDirs(shortName(f))
	}
	// dynamic call through a function value
	switch v := c.Value.(type) {
	case *ssa.Parameter:
		return "func-param:" + v.Name()
	case *ssa.FreeVar:
		return "func-var:" + v.Name()
	}
	return "func-value"
}

func ruleC09KeyOwnership(c *Ctx) {
	u := c.U1
	c.rule("C09.key-ownership", "every *internal.CryptoKey or securememory.Secret returned by any call is closed, returned or handed to a declared consumer on every path to return (void on the creator's err != nil / v == nil edges)", 14)
	r := keyOwnRules()
	for _, f := range u.RepoFuncs {
		c.FuncsAnalysed[shortName(f)] = true
		strict := isDRKScope(f)
		allInstrs(f, func(i ssa.Instruction) {
			if _, ok := i.(*ssa.Call); !ok {
				return
			}
			for _, pr := range resultsOfType(i, func(t types.Type) bool { return isCryptoKeyPtr(t) || isSecretIface(t) }) {
				c.CallSites++
				construct := shortName(f) + "/" + calleeLabel(i)
				if pr[0] == nil {
					c.bad(construct, u.ipos(i), "owned result is discarded without being closed")
					continue
				}
				out := checkOwned(i, pr[0], pr[1], r)
				if !out.OK {
					c.bad(construct, u.ipos(i), "a path reaches return with the key/secret neither closed, returned nor handed over", u.tracePositions(out.Trace)...)
					continue
				}
				if strict && (out.How["return"] > 0 || out.How["consume"] > 0 || out.How["consume-field"] > 0) && isCryptoKeyPtr(pr[0].Type()) && isGenerateKeyCall(i) {
					c.bad(construct, u.ipos(i), "a key generated inside EncryptPayload escapes the call (returned or cached) instead of being closed before return")
					continue
				}
				c.ok(construct, u.ipos(i), fmt.Sprintf("all paths: %v", out.How))
			}
		})
	}
}

// isDRKScope: implementations of Encryption.EncryptPayload (and their closures) — keys generated there are DRKs.
func isDRKScope(f *ssa.Function) bool {
	for g := f; g != nil; g = g.Parent() {
		if g.Name() == "EncryptPayload" && g.Signature.Recv() != nil {
			return true
		}
	}
	return false
}

func isGenerateKeyCall(i ssa.Instruction) bool {
	return staticIs(i, pkgInt+".GenerateKey")
}

// keyCacheInternal: functions that implement the caches themselves; hand-outs inside them are governed by C08 rules.
func keyCacheInternal(f *ssa.Function) bool {
	for g := f; g != nil; g = g.Parent() {
		if g.Signature.Recv() != nil {
			switch namedTypeName(g.Signature.Recv().Type()) {
			case "keyCache", "neverCache", "simpleCache", "cachedCryptoKey":
				return true
			}
		}
		if g.Pkg != nil && g.Pkg.Pkg.Path() == pkgApp {
			switch g.Name() {
			case "tracked", "newCachedCryptoKey", "newCacheEntry":
				return true
			}
		}
	}
	return false
}

func ruleC09HandoutRelease(c *Ctx) {
	u := c.U1
	c.rule("C09.handout-release", "every *cachedCryptoKey obtained from a keyCacher (directly or through a pass-through helper) is closed or returned on every path to return", 6)
	r := keyOwnRules()
	for _, f := range u.RepoFuncs {
		if keyCacheInternal(f) {
			continue
		}
		allInstrs(f, func(i ssa.Instruction) {
			if _, ok := i.(*ssa.Call); !ok {
				return
			}
			for _, pr := range resultsOfType(i, isCachedKeyPtr) {
				c.CallSites++
				construct := shortName(f) + "/" + calleeLabel(i)
				if pr[0] == nil {
					c.bad(construct, u.ipos(i), "handed-out key reference is discarded without Close")
					continue
				}
				rr := *r
				rr.consumers = nil
				rr.consumeFields = nil
				out := checkOwned(i, pr[0], pr[1], &rr)
				if !out.OK {
					c.bad(construct, u.ipos(i), "a path reaches return without Close of the handed-out key reference", u.tracePositions(out.Trace)...)
					continue
				}
				// exactly once: no path releases the reference twice (a deferred Close counts at every later exit)
				if dbl := doubleRelease(f, pr[0], &rr); dbl != nil {
					c.bad(construct, u.ipos(dbl), "the handed-out key reference is closed twice on one path (reference count drops below the cache's own reference: the cached key is destroyed while it stays in the cache — every later use fails with 'secret has already been destroyed')")
					continue
				}
				c.ok(construct, u.ipos(i), fmt.Sprintf("all paths: %v", out.How))
			}
		})
	}
}

// ruleC09EntryWritten: a cacheEntry built by newCacheEntry must reach (*keyCache).write on every path.
func ruleC09EntryWritten(c *Ctx) {
	u := c.U1
	c.rule("C09.entry-written", "every cacheEntry built by newCacheEntry is passed to (*keyCache).write on every path to return (otherwise the key it owns is unreachable and never closed)", 2)
	nce := u.Func(pkgApp, "newCacheEntry")
	wr := u.Method(pkgApp, "keyCache", "write")
	if nce == nil || wr == nil {
		c.unresolved("anchors", "appencryption.newCacheEntry / (*keyCache).write")
		return
	}
	r := &ownRules{consumers: map[string][]int{funcFullName(wr): {2}}, isRelease: func(ssa.Instruction, valueSet) bool { return false }}
	for _, f := range u.RepoFuncs {
		allInstrs(f, func(i ssa.Instruction) {
			cv, ok := i.(*ssa.Call)
			if !ok || staticCallee(i) != nce {
				return
			}
			c.CallSites++
			construct := shortName(f) + "/newCacheEntry"
			out := checkOwned(i, cv, nil, r)
			if !out.OK {
				c.bad(construct, u.ipos(i), "a path reaches return without the new entry being written to the cache", u.tracePositions(out.Trace)...)
				return
			}
			c.ok(construct, u.ipos(i), fmt.Sprintf("all paths: %v", out.How))
		})
	}
}

// ruleC09DisplacedEntry: keys.Set(id, e) over an existing entry holding another key object must release it first.
// displacedReleased: starting at the lookup `get` (keys.Get(id)), every path to an instruction satisfying target either
// takes the not-found edge, takes the "same key object" edge (existing.key == <newKeyPath>), or passes Close of
// existing.key. Returns a counter-example trace otherwise.
func displacedReleased(get ssa.Instruction, newKeyPath string, target func(ssa.Instruction) bool) (bool, []ssa.Instruction) {
	getV := get.(ssa.Value)
	existingKey := fmt.Sprintf("X:%s#0.key", getV.Name())
	okPath := fmt.Sprintf("X:%s#1", getV.Name())
	found, tr := pathSearch(get, func(j ssa.Instruction) pathAction {
		if target(j) {
			return pathFound
		}
		if cc := callOf(j); cc != nil && methodNameOf(cc) == "Close" {
			if rv := receiverOf(cc); rv != nil && accessPath(rv) == existingKey {
				if _, isGo := j.(*ssa.Go); !isGo {
					return pathStop
				}
			}
		}
		return pathContinue
	}, func(from, to *ssa.BasicBlock) bool {
		for _, fct := range edgeFacts(from, to) {
			if accessPath(fct.V) == okPath && !fct.True {
				return false // not found: nothing displaced
			}
			if b, ok := fct.V.(*ssa.BinOp); ok && (b.Op == token.EQL || b.Op == token.NEQ) {
				x, y := accessPath(b.X), accessPath(b.Y)
				if (x == existingKey && y == newKeyPath) || (y == existingKey && x == newKeyPath) {
					if (b.Op == token.EQL) == fct.True {
						return false // same key object: nothing to release
					}
				}
			}
		}
		return true
	})
	return !found, tr
}

// ruleC09DisplacedEntry: keys.Set(id, e) over an existing entry holding another key object must release it first.
func ruleC09DisplacedEntry(c *Ctx) {
	u := c.U1
	c.rule("C09.displaced-entry", "every keys.Set(id, e) in keyCache is preceded — in the same function or in a helper called with the same id and entry — by keys.Get(id) whose found-edge closes the existing entry's key unless it is the same key object as e's", 1)
	for _, f := range u.RepoFuncs {
		if f.Signature.Recv() == nil || namedTypeName(f.Signature.Recv().Type()) != "keyCache" {
			continue
		}
		allInstrs(f, func(i ssa.Instruction) {
			if !isKeysCall(i, "Set") {
				return
			}
			c.CallSites++
			set := callOf(i)
			construct := shortName(f) + "/keys.Set"
			idPath := accessPath(set.Args[0])
			entryPath := accessPath(set.Args[1])
			// (a) lookup in this function
			var get ssa.Instruction
			allInstrs(f, func(j ssa.Instruction) {
				if isKeysCall(j, "Get") && accessPath(callOf(j).Args[0]) == idPath && instrDominates(j, i) {
					get = j
				}
			})
			if get != nil {
				ok, tr := displacedReleased(get, entryPath+".key", func(j ssa.Instruction) bool { return j == i })
				if ok {
					c.ok(construct, u.ipos(i), "existing entry looked up under the same id; its key is closed on every path where it differs from the new entry's key")
				} else {
					c.bad(construct, u.ipos(i), "a path reaches keys.Set over an existing entry holding a different key object without closing that key (the cache's reference is lost)", u.tracePositions(tr)...)
				}
				return
			}
			// (b) a dominating call to a helper of the same type, given the same id and entry
			handled := false
			allInstrs(f, func(j ssa.Instruction) {
				h := staticCallee(j)
				if handled || h == nil || h.Blocks == nil || h.Signature.Recv() == nil || namedTypeName(h.Signature.Recv().Type()) != "keyCache" || !instrDominates(j, i) {
					return
				}
				if _, isCall := j.(*ssa.Call); !isCall {
					return
				}
				args := callOf(j).Args
				idIdx, eIdx := -1, -1
				for k, a := range args {
					if accessPath(a) == idPath {
						idIdx = k
					}
					if accessPath(a) == entryPath {
						eIdx = k
					}
				}
				if idIdx < 0 || eIdx < 0 || idIdx >= len(h.Params) || eIdx >= len(h.Params) {
					return
				}
				var hget ssa.Instruction
				allInstrs(h, func(k ssa.Instruction) {
					if isKeysCall(k, "Get") && isParamNamed(callOf(k).Args[0], h, idIdx) {
						hget = k
					}
				})
				if hget == nil {
					return
				}
				// the helper's lookup must be executed on every path of the helper
				if okAll, _ := mustPass(h.Blocks[0], 0, func(k ssa.Instruction) bool { return k == hget }, nil); !okAll {
					return
				}
				if ok, _ := displacedReleased(hget, "P:"+h.Params[eIdx].Name()+".key", isReturn); ok {
					handled = true
				}
			})
			if handled {
				c.ok(construct, u.ipos(i), "a helper called with the same id and entry looks the existing entry up and closes its key where it differs")
			} else {
				c.bad(construct, u.ipos(i), "no lookup of the existing entry under the same id (here or in a helper given the same id and entry) dominates the Set: a displaced entry's key can never be released")
			}
		})
	}
}

// isKeysCall: invoke of cache.Interface method `name` on the receiver's `keys` field.
func isKeysCall(i ssa.Instruction, name string) bool {
	cc := callOf(i)
	if cc == nil || !cc.IsInvoke() || cc.Method.Name() != name {
		return false
	}
	if !typeIsNamed(cc.Value.Type(), pkgCache, "Interface") {
		return false
	}
	_, fld, ok := fieldAccess(cc.Value)
	return ok && fld == "keys"
}

func ruleC09CloseChains(c *Ctx) {
	u := c.U1
	c.rule("C09.close-chains", "Close of factory, session, envelope, simple cache and generic cache reach every cache/entry they own on every path (skips only on edges that imply the cache was never constructed / is shared / already closed)", 7)

	// (a) SessionFactory.Close closes each cache field that NewSessionFactory constructs
	nsf := u.Func(pkgApp, "NewSessionFactory")
	fclose := u.Method(pkgApp, "SessionFactory", "Close")
	if nsf == nil || fclose == nil {
		c.unresolved("SessionFactory", "NewSessionFactory / (*SessionFactory).Close")
	} else {
		c.FuncsAnalysed[shortName(nsf)] = true
		c.FuncsAnalysed[shortName(fclose)] = true
		for _, fld := range []string{"sessionCache", "systemKeys", "intermediateKeys"} {
			guards, constructed := constructionGuards(nsf, fld)
			construct := "SessionFactory.Close/" + fld
			if !constructed {
				c.unresolved(construct, "no store of a constructed cache into SessionFactory."+fld+" found in NewSessionFactory")
				continue
			}
			ok, tr := mustPass(fclose.Blocks[0], 0, func(i ssa.Instruction) bool {
				cc := callOf(i)
				if cc == nil || methodNameOf(cc) != "Close" {
					return false
				}
				if _, isGo := i.(*ssa.Go); isGo {
					return false
				}
				rv := receiverOf(cc)
				return rv != nil && strings.HasSuffix(accessPath(rv), "P:f."+fld)
			}, func(from, to *ssa.BasicBlock) bool {
				for _, fct := range edgeFacts(from, to) {
					if x, isNil, ok := nilTest(fct); ok && isNil && strings.HasSuffix(accessPath(x), "P:f."+fld) {
						return true
					}
					if pf := policyField(fct.V); pf != "" {
						if want, has := guards[pf]; has && want != fct.True {
							return true // the policy flag that guarded construction is off: never constructed
						}
					}
				}
				return false
			})
			if !ok {
				c.bad(construct, u.pos(fclose.Pos()), fmt.Sprintf("a path through SessionFactory.Close returns without closing f.%s although it may have been constructed (construction guards: %v)", fld, guards), u.tracePositions(tr)...)
			} else {
				c.ok(construct, u.pos(fclose.Pos()), fmt.Sprintf("closed on every path; skip edges only under negated construction guards %v or nil test", guards))
			}
		}
	}

	// (b) Session.Close -> encryption.Close; envelopeEncryption.Close -> ikCache.Close unless shared
	if sc := u.Method(pkgApp, "Session", "Close"); sc == nil {
		c.unresolved("Session.Close", "(*Session).Close")
	} else {
		c.FuncsAnalysed[shortName(sc)] = true
		ok, tr := mustPass(sc.Blocks[0], 0, func(i ssa.Instruction) bool {
			return invokeIs(i, pkgApp, "Encryption", "Close")
		}, nil)
		if ok {
			c.ok("Session.Close/encryption.Close", u.pos(sc.Pos()), "every path calls s.encryption.Close()")
		} else {
			c.bad("Session.Close/encryption.Close", u.pos(sc.Pos()), "a path returns without closing the session's encryption", u.tracePositions(tr)...)
		}
	}
	if ec := u.Method(pkgApp, "envelopeEncryption", "Close"); ec == nil {
		c.unresolved("envelopeEncryption.Close", "(*envelopeEncryption).Close")
	} else {
		c.FuncsAnalysed[shortName(ec)] = true
		ok, tr := mustPass(ec.Blocks[0], 0, func(i ssa.Instruction) bool {
			cc := callOf(i)
			if cc == nil || !invokeIs(i, pkgApp, "keyCacher", "Close") {
				return false
			}
			return strings.HasSuffix(accessPath(cc.Value), ".ikCache")
		}, func(from, to *ssa.BasicBlock) bool {
			for _, fct := range edgeFacts(from, to) {
				if policyField(fct.V) == "SharedIntermediateKeyCache" && fct.True {
					return true
				}
			}
			return false
		})
		if ok {
			c.ok("envelopeEncryption.Close/ikCache.Close", u.pos(ec.Pos()), "ikCache closed on every path except under Policy.SharedIntermediateKeyCache")
		} else {
			c.bad("envelopeEncryption.Close/ikCache.Close", u.pos(ec.Pos()), "a path returns without closing the per-session intermediate key cache (only the shared-cache edge may skip it)", u.tracePositions(tr)...)
		}
	}

	// (b2) envelopeEncryption.Close skips the per-session cache on Policy.SharedIntermediateKeyCache alone, so the shared
	// cache must exist whenever that flag and CacheIntermediateKeys are set: its construction may depend on those two
	// policy flags only (any further condition leaves sessions with a private caching cache that nobody closes)
	if nsf != nil {
		nkc := u.Func(pkgApp, "newKeyCache")
		allInstrs(nsf, func(i ssa.Instruction) {
			if staticCallee(i) != nkc || nkc == nil {
				return
			}
			if k, isC := constOf(callOf(i).Args[0]); !isC || k.ExactString() != "1" {
				return
			}
			var extra []string
			for _, fct := range baseFactsAt(i.Block()) {
				pf := policyField(fct.V)
				if (pf == "CacheIntermediateKeys" || pf == "SharedIntermediateKeyCache") && fct.True {
					continue
				}
				if x, isNil, isT := nilTest(fct); isT && !isNil && strings.HasSuffix(accessPath(x), ".Policy") {
					continue
				}
				extra = append(extra, describeLeaf(fct.V))
			}
			c.check(len(extra) == 0, "NewSessionFactory/shared-ik-cache-condition", u.ipos(i), "shared IK cache constructed exactly under CacheIntermediateKeys && SharedIntermediateKeyCache",
				"the shared intermediate key cache is constructed only under an additional condition ("+strings.Join(extra, ", ")+") while envelopeEncryption.Close skips the per-session cache whenever Policy.SharedIntermediateKeyCache is set: in that configuration every session's own key cache is never closed")
		})
	}

	// (c) simpleCache.Close closes every entry
	if sc := u.Method(pkgApp, "simpleCache", "Close"); sc == nil {
		c.unresolved("simpleCache.Close", "(*simpleCache).Close")
	} else {
		c.FuncsAnalysed[shortName(sc)] = true
		good := false
		why := "no Close call on the ranged entry's key"
		allInstrs(sc, func(i ssa.Instruction) {
			cc := callOf(i)
			if cc == nil || methodNameOf(cc) != "Close" {
				return
			}
			rv := receiverOf(cc)
			if rv == nil || !isCachedKeyPtr(rv.Type()) {
				return
			}
			// receiver must derive from a map range Next over s.m, and the call must be guarded only by the loop condition
			if !derivesFromRangeOver(rv, "m") {
				why = "Close receiver does not come from ranging over s.m"
				return
			}
			for _, fct := range factsAt(i.Block()) {
				if ex, ok := fct.V.(*ssa.Extract); ok {
					if _, isNext := ex.Tuple.(*ssa.Next); isNext && ex.Index == 0 && fct.True {
						continue
					}
				}
				why = "Close of an entry is guarded by a condition other than the loop condition"
				return
			}
			good = true
		})
		c.check(good, "simpleCache.Close/entries", u.pos(sc.Pos()), "ranges over s.m and closes every entry's key unconditionally", why)
	}

	// (d) generic cache Close drains through evict before shutdown
	if cc := u.Method(pkgCache, "cache", "Close"); cc == nil {
		c.unresolved("cache.Close", "(*cache[K,V]).Close")
	} else {
		c.FuncsAnalysed[shortName(cc)] = true
		// every path to return takes the (closing == true) edge or the (size > 0) == false edge (or has called a helper that drains)
		ok, tr := mustPass(cc.Blocks[0], 0, func(i ssa.Instruction) bool { return drainHelperCall(i) != nil }, func(from, to *ssa.BasicBlock) bool {
			for _, fct := range edgeFacts(from, to) {
				if strings.HasSuffix(accessPath(fct.V), "P:c.closing") && fct.True {
					return true
				}
				if sizePositive(fct.V) && !fct.True {
					return true
				}
			}
			return false
		})
		// inside the loop: the (size > 0) true edge must reach evict() before coming back to the test
		evictSeen, loopOK := drainLoop(cc)
		allInstrs(cc, func(i ssa.Instruction) {
			if g := drainHelperCall(i); g != nil {
				c.FuncsAnalysed[shortName(g)] = true
				evictSeen, loopOK = true, true
			}
		})
		switch {
		case !ok:
			c.bad("cache.Close/drain", u.pos(cc.Pos()), "a path through cache.Close returns while size may still be > 0 (entries are dropped without their eviction callback)", u.tracePositions(tr)...)
		case !evictSeen || !loopOK:
			c.bad("cache.Close/drain", u.pos(cc.Pos()), "the drain loop does not evict on every iteration")
		default:
			c.ok("cache.Close/drain", u.pos(cc.Pos()), "returns only via the already-closing edge or after the `size > 0` loop (which evicts each iteration) has exited")
		}
	}

	// (e) the key cache's generic cache is built with an eviction callback that closes the evicted entry's key on every path
	if nkc := u.Func(pkgApp, "newKeyCache"); nkc == nil {
		c.unresolved("newKeyCache", "function")
	} else {
		cg := newCallGraph(u)
		var builds, withEvict []ssa.Instruction
		cbs := map[*ssa.Function]bool{}
		allInstrs(nkc, func(i ssa.Instruction) {
			g := staticCallee(i)
			if g == nil || g.Pkg == nil || g.Pkg.Pkg.Path() != pkgCache {
				return
			}
			switch g.Name() {
			case "Build":
				builds = append(builds, i)
			case "WithEvictFunc":
				withEvict = append(withEvict, i)
				for f := range cg.funcValues(callOf(i).Args[1], nil, 0) {
					cbs[f] = true
				}
			}
		})
		for _, b := range builds {
			ok := false
			for _, w := range withEvict {
				if instrDominates(w, b) {
					ok = true
				}
			}
			c.check(ok && len(cbs) > 0, "newKeyCache/evict-callback-installed", u.ipos(b), "WithEvictFunc(<callback>) precedes Build on every path", "the key cache's generic cache is built without an eviction callback: evicted keys are never closed (their protected memory leaks)")
		}
		if len(builds) == 0 {
			c.unresolved("newKeyCache/Build", "no cache Build call in newKeyCache")
		}
		for cb := range cbs {
			c.FuncsAnalysed[shortName(cb)] = true
			if len(cb.Params) < 2 || cb.Blocks == nil {
				c.undecided(trimPkgDirs(shortName(cb))+"/closes-evicted-key", u.pos(cb.Pos()), "callback shape not recognised")
				continue
			}
			val := "P:" + cb.Params[1].Name()
			ok, tr := mustPass(cb.Blocks[0], 0, func(i ssa.Instruction) bool {
				cc := callOf(i)
				if cc == nil || methodNameOf(cc) != "Close" {
					return false
				}
				if _, isGo := i.(*ssa.Go); isGo {
					return false
				}
				rv := receiverOf(cc)
				return rv != nil && strings.HasPrefix(trimAddr(accessPath(rv)), val+".key")
			}, nil)
			if ok {
				c.ok(trimPkgDirs(shortName(cb))+"/closes-evicted-key", u.pos(cb.Pos()), "value.key.Close() on every path")
			} else {
				c.bad(trimPkgDirs(shortName(cb))+"/closes-evicted-key", u.pos(cb.Pos()), "the key cache's eviction callback has a path that does not close the evicted entry's key: keys leaving the cache by eviction or at cache Close keep their protected memory forever", u.tracePositions(tr)...)
			}
		}
	}
}

// drainLoop: on every `size > 0` true edge of fn, evict() is reached before the test is reached again or fn returns.
func drainLoop(fn *ssa.Function) (evictSeen, loopOK bool) {
	loopOK = true
	for _, b := range fn.Blocks {
		for _, s := range b.Succs {
			for _, fct := range edgeFacts(b, s) {
				if sizePositive(fct.V) && fct.True {
					found, _ := pathSearchAt(s, 0, func(i ssa.Instruction) pathAction {
						if f := staticCallee(i); f != nil && (f.Name() == "evict" || f.Name() == "evictItem") {
							evictSeen = true
							return pathStop
						}
						if i.Block() == b && indexOf(i) == 0 {
							return pathFound // back at the loop test without evicting
						}
						if isReturn(i) {
							return pathFound
						}
						return pathContinue
					}, nil)
					if found {
						loopOK = false
					}
				}
			}
		}
	}
	return
}

// drainsToEmpty: g is a helper that returns only on the false edge of `size > 0` and evicts on every iteration of that loop.
func drainsToEmpty(g *ssa.Function) bool {
	if g == nil || g.Blocks == nil || g.Signature.Results().Len() != 0 {
		return false
	}
	ok, _ := mustPass(g.Blocks[0], 0, func(i ssa.Instruction) bool { return false }, func(from, to *ssa.BasicBlock) bool {
		for _, fct := range edgeFacts(from, to) {
			if sizePositive(fct.V) && !fct.True {
				return true
			}
		}
		return false
	})
	if !ok {
		return false
	}
	seen, loopOK := drainLoop(g)
	return seen && loopOK
}

// drainHelperCall: i is a plain call (not go/defer) to a same-package helper that drains the cache to empty.
func drainHelperCall(i ssa.Instruction) *ssa.Function {
	if _, isCall := i.(*ssa.Call); !isCall {
		return nil
	}
	g := staticCallee(i)
	if g == nil || i.Parent() == nil || g.Pkg != i.Parent().Pkg || g == i.Parent() {
		return nil
	}
	if drainsToEmpty(g) {
		return g
	}
	return nil
}

// afterDrain: i executes only once size is known not to be > 0: on the false edge of the test, or after a draining helper.
func afterDrain(i ssa.Instruction) bool {
	if guardedBy(i, false, sizePositive) {
		return true
	}
	found := false
	allInstrs(i.Parent(), func(j ssa.Instruction) {
		if drainHelperCall(j) != nil && instrDominates(j, i) {
			found = true
		}
	})
	return found
}

func sizePositive(v ssa.Value) bool {
	b, ok := v.(*ssa.BinOp)
	if !ok || b.Op != token.GTR {
		return false
	}
	k, isC := constOf(b.Y)
	return isC && k.ExactString() == "0" && strings.HasSuffix(accessPath(b.X), ".size")
}

// derivesFromRangeOver: v is (a field of) the value extracted from a Next over a Range of field `fld`.
func derivesFromRangeOver(v ssa.Value, fld string) bool {
	for n := 0; n < 16; n++ {
		v = strip(v)
		switch x := v.(type) {
		case *ssa.Field:
			v = x.X
		case *ssa.FieldAddr:
			v = x.X
		case *ssa.UnOp:
			if x.Op != token.MUL {
				return false
			}
			if a, ok := x.X.(*ssa.Alloc); ok {
				st := localStores(a)
				if len(st) != 1 {
					return false
				}
				v = st[0]
			} else {
				v = x.X
			}
		case *ssa.Alloc:
			st := localStores(x)
			if len(st) != 1 {
				return false
			}
			v = st[0]
		case *ssa.Extract:
			nx, ok := x.Tuple.(*ssa.Next)
			if !ok {
				return false
			}
			rg, ok := nx.Iter.(*ssa.Range)
			if !ok {
				return false
			}
			_, f, ok := fieldAccess(rg.X)
			return ok && f == fld
		default:
			return false
		}
	}
	return false
}

// policyField: if v is a load of CryptoPolicy field X (…Policy.X or policy.X), return X.
func policyField(v ssa.Value) string {
	base, fld, ok := fieldAccess(strip(v))
	if !ok {
		return ""
	}
	if typeIsNamed(base.Type(), pkgApp, "CryptoPolicy") {
		return fld
	}
	return ""
}

// constructionGuards finds the store into SessionFactory.<fld> in NewSessionFactory and returns the policy-flag
// facts under which a *constructed* (non-nil) cache reaches it. If a constructed value reaches it on all branches the
// guard set is empty (always constructed).
func constructionGuards(nsf *ssa.Function, fld string) (map[string]bool, bool) {
	var stored []ssa.Value
	allInstrs(nsf, func(i ssa.Instruction) {
		if s, ok := i.(*ssa.Store); ok {
			if base, f, ok := fieldAccess(s.Addr); ok && f == fld && typeIsNamed(base.Type(), pkgApp, "SessionFactory") {
				stored = append(stored, s.Val)
			}
		}
	})
	if len(stored) == 0 {
		return nil, false
	}
	guards := map[string]bool{}
	first := true
	any := false
	var visit func(v ssa.Value, at *ssa.BasicBlock, seen map[ssa.Value]bool)
	visit = func(v ssa.Value, at *ssa.BasicBlock, seen map[ssa.Value]bool) {
		if seen[v] {
			return
		}
		seen[v] = true
		switch x := v.(type) {
		case *ssa.Phi:
			for k, e := range x.Edges {
				visit(e, x.Block().Preds[k], seen)
			}
			return
		case *ssa.MakeInterface:
			visit(x.X, at, seen)
			return
		case *ssa.ChangeInterface:
			visit(x.X, at, seen)
			return
		case *ssa.Const:
			return // nil branch
		}
		// a constructed value: collect policy-flag facts at its defining block
		any = true
		blk := at
		if in, ok := v.(ssa.Instruction); ok && in.Block() != nil {
			blk = in.Block()
		}
		g := map[string]bool{}
		if blk != nil {
			fs := factsAt(blk)
			for _, fct := range fs {
				if pf := policyField(fct.V); pf != "" {
					g[pf] = fct.True
				}
			}
		}
		if first {
			for k, v := range g {
				guards[k] = v
			}
			first = false
		} else {
			// constructed on more than one branch: keep only guards common to all (intersection)
			for k, v := range guards {
				if gv, ok := g[k]; !ok || gv != v {
					delete(guards, k)
				}
			}
		}
	}
	for _, s := range stored {
		visit(s, nil, map[ssa.Value]bool{})
	}
	return guards, any
}

var pkgDirRe = regexp.MustCompile(`[A-Za-z0-9_.\-]+/`)

// trimPkgDirs drops directory components of package paths: "(*appencryption/plugins/aws-v2/kms.AWSKMS).X" -> "(*kms.AWSKMS).X".
func trimPkgDirs(s string) string { return pkgDirRe.ReplaceAllString(s, "") }

// doubleRelease: a second release (call or defer) of an alias of v is reachable after a first one.
func doubleRelease(f *ssa.Function, v ssa.Value, r *ownRules) ssa.Instruction {
	al := aliasClosure(v, r)
	var rels []ssa.Instruction
	allInstrs(f, func(i ssa.Instruction) {
		if r.isRelease(i, al) {
			rels = append(rels, i)
		}
	})
	for _, r1 := range rels {
		for _, r2 := range rels {
			if r1 == r2 {
				continue
			}
			_, r1Defer := r1.(*ssa.Defer)
			_, r2Defer := r2.(*ssa.Defer)
			if r2Defer && !r1Defer {
				continue // counted from the defer's side
			}
			if reaches(r1, r2) {
				// v may be re-assigned between the two (loop): only flag when both act on the same SSA value chain
				return r2
			}
		}
	}
	return nil
}
