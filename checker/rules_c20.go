package main

// C20 — key caching avoids external calls (DESIGN §3 C20).

import (
	"fmt"

	"golang.org/x/tools/go/ssa"
)

// ruleC20DisabledMeansNever (shared with C09): caching key caches are constructed only under the policy flag that
// enables them; neverCache calls the loader on every invocation and retains nothing.
func ruleC20DisabledMeansNever(c *Ctx) {
	u := c.U1
	c.rule("C20.disabled-means-never", "newKeyCache(CacheTypeSystemKeys) is called only where Policy.CacheSystemKeys is known true and newKeyCache(CacheTypeIntermediateKeys) only where Policy.CacheIntermediateKeys is known true; neverCache methods invoke the loader on every path and store nothing", 5)
	nkc := u.Func(pkgApp, "newKeyCache")
	if nkc == nil {
		c.unresolved("newKeyCache", "appencryption.newKeyCache")
		return
	}
	for _, f := range u.RepoFuncs {
		allInstrs(f, func(i ssa.Instruction) {
			if staticCallee(i) != nkc {
				return
			}
			c.CallSites++
			cc := callOf(i)
			construct := shortName(f) + "/newKeyCache"
			k, isC := constOf(cc.Args[0])
			if !isC {
				c.undecided(construct, u.ipos(i), "cache type argument is not a constant")
				return
			}
			want := map[string]string{"0": "CacheSystemKeys", "1": "CacheIntermediateKeys"}[k.ExactString()]
			if want == "" {
				c.undecided(construct, u.ipos(i), "unknown cache type constant "+k.ExactString())
				return
			}
			construct += "(" + want + ")"
			guarded := false
			for _, fct := range factsAt(i.Block()) {
				if policyField(fct.V) == want && fct.True {
					guarded = true
				}
			}
			c.check(guarded, construct, u.ipos(i), "constructed only on the edge where Policy."+want+" is true",
				"a caching key cache is constructed on a path where Policy."+want+" is not known to be true: with caching disabled by policy keys would still be retained between calls")
		})
	}
	nc := u.Named(pkgApp, "neverCache")
	if nc == nil {
		c.unresolved("neverCache", "appencryption.neverCache")
		return
	}
	for _, m := range []string{"GetOrLoad", "GetOrLoadLatest"} {
		f := u.MethodOf(nc, m)
		construct := "neverCache." + m
		if f == nil || f.Blocks == nil {
			c.unresolved(construct, "method body")
			continue
		}
		c.FuncsAnalysed[shortName(f)] = true
		ok, tr := mustPass(f.Blocks[0], 0, func(i ssa.Instruction) bool {
			cc := callOf(i)
			if cc == nil || cc.IsInvoke() || cc.StaticCallee() != nil {
				return false
			}
			p, isP := cc.Value.(*ssa.Parameter)
			return isP && p.Name() == "loader"
		}, nil)
		stores := 0
		allInstrs(f, func(i ssa.Instruction) {
			switch x := i.(type) {
			case *ssa.Store:
				if _, local := x.Addr.(*ssa.Alloc); !local {
					if fa, ok := x.Addr.(*ssa.FieldAddr); ok {
						if _, l2 := fa.X.(*ssa.Alloc); l2 {
							return
						}
					}
					stores++
				}
			case *ssa.MapUpdate:
				stores++
			}
		})
		switch {
		case !ok:
			c.bad(construct, u.pos(f.Pos()), "a path returns without invoking the loader: with caching disabled something other than a fresh load is handed out", u.tracePositions(tr)...)
		case stores > 0:
			c.bad(construct, u.pos(f.Pos()), fmt.Sprintf("%d store(s) to non-local memory: neverCache must retain nothing between calls", stores))
		default:
			c.ok(construct, u.pos(f.Pos()), "loader invoked on every path; no stores to non-local memory")
		}
	}
}
