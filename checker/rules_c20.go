package main

// C20 — key caching avoids external calls (DESIGN §3 C20).

import (
	"fmt"
	"go/token"
	"go/types"
	"sort"
	"strings"

	"golang.org/x/tools/go/ssa"
)

// ruleC20DisabledMeansNever (shared with C09): caching key caches are constructed only under the policy flag that
// enables them; neverCache calls the loader on every invocation and retains nothing.
func ruleC20DisabledMeansNever(c *Ctx) {
	u := c.U1
	c.rule("C20.disabled-means-never", "newKeyCache(CacheTypeSystemKeys) is called only where Policy.CacheSystemKeys is known true and newKeyCache(CacheTypeIntermediateKeys) only where Policy.CacheIntermediateKeys is known true; neverCache methods invoke the loader on every path and store nothing", 5)
	nkc := u.Func(pkgApp, "newKeyCache")
	if nkc == nil {
		c.unresolved("newKeyCache", "appencryption.newKeyCache")
		return
	}
	for _, f := range u.RepoFuncs {
		allInstrs(f, func(i ssa.Instruction) {
			if staticCallee(i) != nkc {
				return
			}
			c.CallSites++
			cc := callOf(i)
			construct := shortName(f) + "/newKeyCache"
			k, isC := constOf(cc.Args[0])
			if !isC {
				c.undecided(construct, u.ipos(i), "cache type argument is not a constant")
				return
			}
			want := map[string]string{"0": "CacheSystemKeys", "1": "CacheIntermediateKeys"}[k.ExactString()]
			if want == "" {
				c.undecided(construct, u.ipos(i), "unknown cache type constant "+k.ExactString())
				return
			}
			construct += "(" + want + ")"
			guarded := false
			for _, fct := range factsAt(i.Block()) {
				if policyField(fct.V) == want && fct.True {
					guarded = true
				}
			}
			c.check(guarded, construct, u.ipos(i), "constructed only on the edge where Policy."+want+" is true",
				"a caching key cache is constructed on a path where Policy."+want+" is not known to be true: with caching disabled by policy keys would still be retained between calls")
		})
	}
	nc := u.Named(pkgApp, "neverCache")
	if nc == nil {
		c.unresolved("neverCache", "appencryption.neverCache")
		return
	}
	for _, m := range []string{"GetOrLoad", "GetOrLoadLatest"} {
		f := u.MethodOf(nc, m)
		construct := "neverCache." + m
		if f == nil || f.Blocks == nil {
			c.unresolved(construct, "method body")
			continue
		}
		c.FuncsAnalysed[shortName(f)] = true
		loaderIdx := -1
		for k, p := range f.Params {
			if p.Name() == "loader" {
				loaderIdx = k
			}
		}
		if loaderIdx < 0 {
			for k, p := range f.Params {
				if _, isSig := p.Type().Underlying().(*types.Signature); isSig {
					loaderIdx = k
				}
			}
		}
		ok, tr, stores := alwaysCallsParam(f, loaderIdx, 0)
		switch {
		case !ok:
			c.bad(construct, u.pos(f.Pos()), "a path returns without invoking the loader: with caching disabled something other than a fresh load is handed out", u.tracePositions(tr)...)
		case stores > 0:
			c.bad(construct, u.pos(f.Pos()), fmt.Sprintf("%d store(s) to non-local memory: neverCache must retain nothing between calls", stores))
		default:
			c.ok(construct, u.pos(f.Pos()), "loader invoked on every path; no stores to non-local memory")
		}
	}
}

// alwaysCallsParam: every path through f calls its function-typed parameter #idx — directly, or by handing it to a
// helper of the same package that does (depth ≤ 2). stores counts the stores to non-local memory in f and in those helpers.
func alwaysCallsParam(f *ssa.Function, idx int, depth int) (ok bool, tr []ssa.Instruction, stores int) {
	if f == nil || f.Blocks == nil || idx < 0 || idx >= len(f.Params) || depth > 2 {
		return false, nil, 0
	}
	param := f.Params[idx]
	ok, tr = mustPass(f.Blocks[0], 0, func(i ssa.Instruction) bool {
		cc := callOf(i)
		if cc == nil || cc.IsInvoke() {
			return false
		}
		if _, isGo := i.(*ssa.Go); isGo {
			return false
		}
		if _, isDefer := i.(*ssa.Defer); isDefer {
			return false
		}
		if g := cc.StaticCallee(); g != nil {
			if g.Pkg != f.Pkg || g == f {
				return false
			}
			for k, a := range cc.Args {
				if strip(a) == ssa.Value(param) {
					if gok, _, gst := alwaysCallsParam(g, k, depth+1); gok {
						stores += gst
						return true
					}
				}
			}
			return false
		}
		return strip(cc.Value) == ssa.Value(param)
	}, nil)
	allInstrs(f, func(i ssa.Instruction) {
		switch x := i.(type) {
		case *ssa.Store:
			if _, local := x.Addr.(*ssa.Alloc); !local {
				if fa, isFA := x.Addr.(*ssa.FieldAddr); isFA {
					if _, l2 := fa.X.(*ssa.Alloc); l2 {
						return
					}
				}
				stores++
			}
		case *ssa.MapUpdate:
			stores++
		}
	})
	return ok, tr, stores
}

func init() {
	register(&propSpec{
		ID:            "C20",
		UsesCallGraph: true,
		Title:         "Key caching avoids external calls, and only for one revoke-check interval",
		Explanation: "Structural necessary conditions of C20: (hit-is-pure) in keyCache.GetOrLoad/GetOrLoadLatest every loader()/load() call sits on the stale-or-miss edge of getFresh or the invalid edge of IsInvalid, and nothing on the " +
			"fresh path can reach a Metastore/KMS method; (external-only-via-cache) under closure-binding-sensitive reachability every path from Session.Encrypt/Decrypt to a Metastore or KeyManagementService method passes through a " +
			"keyCacher implementation's GetOrLoad/GetOrLoadLatest; (factory-wide-sk-cache) every session's skCache is the one object in SessionFactory.systemKeys, assigned only by NewSessionFactory; (reload-once) load() invokes the " +
			"loader exactly once, unconditionally; (disabled-means-never) caching key caches are constructed only under their policy flag and neverCache retains nothing; (stale-means-reload, shared with C05) freshness is decided by " +
			"isReloadRequired(entry, RevokeCheckInterval); loadedAt is written only by the entry constructor and load(); the generic cache's Set really stores a refreshed entry; the latest pointer only moves forward. Call counts over histories and interval arithmetic are not decided.",
		NotDecided:  []string{"numbers of external calls over operation histories", "interval boundaries / clock arithmetic", "'working set fits the cache' (eviction behaviour of pkg/cache)"},
		Assumptions: []string{"interface invokes resolve to the repo's implementations (user-supplied Metastore/KMS/AEAD are opaque)", "log.Debugf and metrics calls make no metastore/KMS calls"},
		Tech:        "static analysis: closure-binding-sensitive call-graph reachability (who-may-call), guarded-by-condition on SSA",
		NeedU1:      true,
		Rules:       []func(*Ctx){ruleC20HitIsPure, ruleC20ExternalOnlyViaCache, ruleC20FactoryWideSKCache, ruleC20ReloadOnce, ruleC20DisabledMeansNever, ruleC05StaleMeansReload, ruleC05ReloadRefreshes, ruleC05FreshnessWriters, ruleC15SetStoresValue, ruleC04LatestMapMonotonic, ruleC04LatestRevalidated, ruleC04LoaderRejectsInvalid, ruleC20StaleOnlyWhenReloadRequired, ruleC01ProvenanceDecrypt, ruleC20CacheSizedByOwnPolicy, ruleC01OldKeysAddressable, ruleC15PolicyCapacityIsTheConfigured, ruleC20IKCachingFollowsTheFlag, ruleC08SharedCacheNotClosedBySession, ruleC15VictimEnd},
	})
}

// isExternalKeyCall: invoke of a Metastore or KeyManagementService method.
func isExternalKeyCall(i ssa.Instruction) bool {
	cc := callOf(i)
	if cc == nil || !cc.IsInvoke() {
		return false
	}
	return typeIsNamed(cc.Value.Type(), pkgApp, "Metastore") || typeIsNamed(cc.Value.Type(), pkgApp, "KeyManagementService")
}

func externalFuncs(u *Universe) map[*ssa.Function]bool {
	out := map[*ssa.Function]bool{}
	for _, f := range u.RepoFuncs {
		allInstrs(f, func(i ssa.Instruction) {
			if isExternalKeyCall(i) {
				out[f] = true
			}
		})
	}
	return out
}

func ruleC20HitIsPure(c *Ctx) {
	u := c.U1
	c.rule("C20.hit-is-pure", "in keyCache.GetOrLoad/GetOrLoadLatest every load()/loader() call is on getFresh's not-fresh edge or IsInvalid's true edge; no call on the path from getFresh's fresh edge to return can reach a Metastore/KMS method", 5)
	gf := u.Method(pkgApp, "keyCache", "getFresh")
	ld := u.Method(pkgApp, "keyCache", "load")
	isInv := u.Method(pkgApp, "keyCache", "IsInvalid")
	if gf == nil || ld == nil || isInv == nil {
		c.unresolved("keyCache", "getFresh/load/IsInvalid")
		return
	}
	cg := newCallGraph(u)
	ext := externalFuncs(u)
	dom := newLockDomain(u, pkgApp, "keyCache", "rw")
	for _, m := range []string{"GetOrLoad", "GetOrLoadLatest"} {
		f := u.Method(pkgApp, "keyCache", m)
		if f == nil {
			c.unresolved(m, "(*keyCache)."+m)
			continue
		}
		c.FuncsAnalysed[shortName(f)] = true
		allInstrs(f, func(i ssa.Instruction) {
			if staticCallee(i) != ld && !dynamicCallOfParam(i, "loader") {
				return
			}
			c.CallSites++
			// the deciding freshness lookup must itself run under the write lock (double-checked locking): otherwise N
			// goroutines that all saw the entry stale under the read lock each reload it once they get the write lock
			notFresh := guardedBy(i, false, func(v ssa.Value) bool {
				ex, ok := strip(v).(*ssa.Extract)
				if !ok || ex.Index != 1 {
					return false
				}
				cv, ok := ex.Tuple.(*ssa.Call)
				if !ok || staticCallee(cv) != gf || dom.stateAt(cv) != lsW {
					return false
				}
				unlocked, _ := pathSearch(cv, func(j ssa.Instruction) pathAction {
					if j == i {
						return pathStop
					}
					if op, isOp := dom.lockOp(j, recvPathOf(f)); isOp && op == lsU && reaches(j, i) {
						return pathFound
					}
					return pathContinue
				}, nil)
				return !unlocked
			})
			invalid := guardedBy(i, true, func(v ssa.Value) bool { cv, ok := strip(v).(*ssa.Call); return ok && staticCallee(cv) == isInv })
			c.check(notFresh || invalid, shortName(f)+"/"+calleeLabel(i), u.ipos(i), "only on the miss/stale edge of a getFresh made under the write lock (re-check) or the invalid edge of IsInvalid",
				"the loader (metastore/KMS) is invoked without a freshness re-check under the write lock saying the key is missing/stale (or invalid): a fresh cached key is reloaded, or every goroutine that saw it stale reloads it again (one KMS unwrap per session instead of one per factory and interval)")
		})
		// fresh path purity
		allInstrs(f, func(i ssa.Instruction) {
			if staticCallee(i) != gf {
				return
			}
			cv, isCall := i.(*ssa.Call)
			if !isCall {
				return
			}
			var offender string
			for _, b := range f.Blocks {
				for _, s := range b.Succs {
					for _, fct := range edgeFacts(b, s) {
						ex, ok := strip(fct.V).(*ssa.Extract)
						if !ok || ex.Index != 1 || ex.Tuple != ssa.Value(cv) || !fct.True {
							continue
						}
						_, _ = pathSearchAt(s, 0, func(j ssa.Instruction) pathAction {
							if staticCallee(j) == isInv {
								return pathContinue
							}
							if callOf(j) == nil {
								return pathContinue
							}
							// invalid edge re-load is governed by the first clause; stop there
							if dynamicCallOfParam(j, "loader") || staticCallee(j) == ld {
								return pathStop
							}
							for t := range cg.calleesAt(j, cgEnv{}) {
								for r := range cg.reachableFrom(t) {
									if ext[r] {
										offender = u.ipos(j) + " " + instrText(j) + " → " + trimPkgDirs(shortName(r))
									}
								}
							}
							return pathContinue
						}, nil)
					}
				}
			}
			c.check(offender == "", shortName(f)+"/fresh-path", u.ipos(i), "no call on the fresh path reaches a Metastore/KMS method", "a call on the cache-hit path can reach the metastore/KMS: "+offender)
		})
	}
}

func ruleC20ExternalOnlyViaCache(c *Ctx) {
	u := c.U1
	c.rule("C20.external-only-via-cache", "every call-graph path (closure-binding-sensitive) from Session.Encrypt/Decrypt to a Metastore.* / KeyManagementService.* call passes through GetOrLoad/GetOrLoadLatest of a keyCacher implementation; the SDK core has exactly the expected external call sites", 3)
	iface := u.Iface(pkgApp, "keyCacher")
	if iface == nil {
		c.unresolved("keyCacher", "appencryption.keyCacher")
		return
	}
	gate := map[*ssa.Function]bool{}
	for _, n := range u.Implementations(iface) {
		for _, m := range []string{"GetOrLoad", "GetOrLoadLatest"} {
			if f := u.MethodOf(n, m); f != nil {
				gate[orig(f)] = true
			}
		}
	}
	cg := newCallGraph(u)
	ext := externalFuncs(u)
	for _, m := range []string{"Encrypt", "Decrypt"} {
		start := u.Method(pkgApp, "Session", m)
		if start == nil {
			c.unresolved("Session."+m, "(*Session)."+m)
			continue
		}
		reach := cg.reachableFromAvoiding(start, func(f *ssa.Function) bool { return gate[f] })
		var hits []string
		gated := 0
		for f := range reach {
			c.FuncsAnalysed[shortName(f)] = true
			if gate[f] {
				gated++
				continue
			}
			if ext[f] {
				hits = append(hits, strings.Join(cg.pathTo(reach, f), " → "))
			}
		}
		sort.Strings(hits)
		if len(hits) > 0 {
			c.bad("Session."+m+"/bypass", u.pos(start.Pos()), "a Metastore/KMS call is reachable without going through a key cache: "+strings.Join(hits, " | "))
		} else {
			c.check(gated > 0, "Session."+m+"/bypass", u.pos(start.Pos()), fmt.Sprintf("%d functions reachable outside the key caches, none calls Metastore/KMS; %d cache entry points reached", len(reach)-gated, gated),
				"no key cache entry point is reachable from Session."+m)
		}
	}
	// inventory of external call sites in the SDK core
	nm, nk := 0, 0
	for _, f := range u.RepoFuncs {
		if f.Pkg == nil || rootFunc(f).Pkg.Pkg.Path() != pkgApp {
			continue
		}
		allInstrs(f, func(i ssa.Instruction) {
			if cc := callOf(i); cc != nil && cc.IsInvoke() {
				if typeIsNamed(cc.Value.Type(), pkgApp, "Metastore") {
					nm++
				}
				if typeIsNamed(cc.Value.Type(), pkgApp, "KeyManagementService") {
					nk++
				}
			}
		})
	}
	c.CallSites += nm + nk
	c.check(nm >= 3 && nk >= 2, "appencryption/external-call-sites", "", fmt.Sprintf("%d Metastore and %d KMS call sites in the SDK core", nm, nk), fmt.Sprintf("expected at least 3 Metastore and 2 KMS call sites in the SDK core, found %d/%d (anchors moved?)", nm, nk))
}

func ruleC20FactoryWideSKCache(c *Ctx) {
	u := c.U1
	c.rule("C20.factory-wide-sk-cache", "newSession gives every envelopeEncryption the factory's systemKeys cache as skCache; SessionFactory.systemKeys is assigned only in NewSessionFactory", 2)
	ns := u.Func(pkgApp, "newSession")
	if ns == nil {
		c.unresolved("newSession", "appencryption.newSession")
		return
	}
	c.FuncsAnalysed[shortName(ns)] = true
	good := false
	n := 0
	isFactoryWide := func(v ssa.Value) bool { return strings.HasSuffix(accessPath(v), "P:f.systemKeys") }
	litsIn := func(g *ssa.Function, judge func(v ssa.Value) bool) {
		allInstrs(g, func(i ssa.Instruction) {
			a, ok := i.(*ssa.Alloc)
			if !ok || a.Comment != "complit" || !typeIsNamed(a.Type(), pkgApp, "envelopeEncryption") {
				return
			}
			n++
			if v, has := litFields(a)["skCache"]; has && judge(v) {
				good = true
			}
		})
	}
	litsIn(ns, isFactoryWide)
	// the literal may be built by a helper of the package that newSession hands the cache to
	allInstrs(ns, func(i ssa.Instruction) {
		cv, ok := i.(*ssa.Call)
		if !ok {
			return
		}
		h := cv.Call.StaticCallee()
		if h == nil || h.Blocks == nil || h.Pkg != ns.Pkg || h == ns {
			return
		}
		c.FuncsAnalysed[shortName(h)] = true
		litsIn(h, func(v ssa.Value) bool {
			if isFactoryWide(v) && len(h.Params) > 0 && isParamNamed(cv.Call.Args[0], ns, 0) && h.Params[0].Name() == "f" {
				return true // read from the same factory the helper was handed as its receiver
			}
			hp, isP := resolve(v).(*ssa.Parameter)
			if !isP {
				return false
			}
			for k, q := range h.Params {
				if q == hp && k < len(cv.Call.Args) && isFactoryWide(cv.Call.Args[k]) {
					return true
				}
			}
			return false
		})
	})
	c.check(good && n == 1, shortName(ns)+"/skCache", u.pos(ns.Pos()), "skCache = f.systemKeys", "a session's system-key cache is not the factory-wide cache: each session would unwrap the system key through the KMS again")
	bad := ""
	cnt := 0
	for _, f := range u.RepoFuncs {
		allInstrs(f, func(i ssa.Instruction) {
			if st, ok := i.(*ssa.Store); ok {
				if base, fld, isF := fieldAccess(st.Addr); isF && fld == "systemKeys" && typeIsNamed(base.Type(), pkgApp, "SessionFactory") {
					cnt++
					if rootFunc(f).Name() != "NewSessionFactory" {
						bad = u.ipos(i)
					}
				}
			}
		})
	}
	c.check(bad == "" && cnt == 1, "SessionFactory.systemKeys/writers", "", "assigned once, in NewSessionFactory", "SessionFactory.systemKeys is (re)assigned outside NewSessionFactory: "+bad)
}

func ruleC20ReloadOnce(c *Ctx) {
	u := c.U1
	c.rule("C20.reload-once", "keyCache.load invokes the loader exactly once, unconditionally (entry block), so a stale key costs one re-read", 1)
	f := u.Method(pkgApp, "keyCache", "load")
	if f == nil {
		c.unresolved("load", "(*keyCache).load")
		return
	}
	n, entry := 0, false
	allInstrs(f, func(i ssa.Instruction) {
		if dynamicCallOfParam(i, "loader") {
			n++
			entry = i.Block() == f.Blocks[0]
		}
	})
	c.check(n == 1 && entry, shortName(f)+"/loader-calls", u.pos(f.Pos()), "one unconditional loader call", fmt.Sprintf("load() calls the loader %d times / conditionally", n))
}

// ruleC20CacheSizedByOwnPolicy: each key cache is built from its own policy fields: wherever newKeyCache reads a
// *KeyCacheMaxSize / *KeyCacheEvictionPolicy field of the policy, the cache type it is building (the switch on t) is the one
// that field belongs to. A cache sized or evicted by the other cache's setting thrashes although the working set fits the
// capacity the user configured for it ("a working set that fits the cache performs no metastore and no KMS calls").
func ruleC20CacheSizedByOwnPolicy(c *Ctx) {
	u := c.U1
	c.rule("C20.cache-sized-by-its-own-policy", "newKeyCache reads SystemKeyCacheMaxSize / SystemKeyCacheEvictionPolicy only where t == CacheTypeSystemKeys and IntermediateKeyCacheMaxSize / IntermediateKeyCacheEvictionPolicy only where t == CacheTypeIntermediateKeys", 4)
	n := 0
	for _, f := range u.RepoFuncs {
		if f.Pkg == nil || f.Pkg.Pkg.Path() != pkgApp || f.Blocks == nil {
			continue
		}
		tIdx := -1
		for k, p := range f.Params {
			if strings.HasSuffix(p.Type().String(), ".cacheKeyType") {
				tIdx = k
			}
		}
		if tIdx < 0 {
			continue
		}
		f, tIdx := f, tIdx
		c.FuncsAnalysed[shortName(f)] = true
		allInstrs(f, func(i ssa.Instruction) {
			ld, ok := i.(*ssa.UnOp)
			if !ok || ld.Op != token.MUL {
				return
			}
			fa, isF := ld.X.(*ssa.FieldAddr)
			if !isF {
				return
			}
			fld := fieldName(fa.X.Type(), fa.Field)
			want := int64(-1)
			switch {
			case strings.HasPrefix(fld, "SystemKeyCache"):
				want = 0
			case strings.HasPrefix(fld, "IntermediateKeyCache"):
				want = 1
			default:
				return
			}
			n++
			ok2 := false
			for _, fct := range factsAt(i.Block()) {
				b, isB := fct.V.(*ssa.BinOp)
				if !isB || b.Op != token.EQL || !fct.True {
					continue
				}
				if !isParamNamed(b.X, f, tIdx) && !isParamNamed(b.Y, f, tIdx) {
					continue
				}
				for _, o := range []ssa.Value{b.X, b.Y} {
					if k, isC := constOf(o); isC {
						if v, _ := constantInt64(k); v == want {
							ok2 = true
						}
					}
				}
			}
			c.check(ok2, f.Name()+"/"+fld, u.ipos(i), "read only while building the cache type it belongs to", "policy."+fld+" is read while building the other key cache: that cache's capacity / eviction policy no longer follows its own configuration, so a working set that fits the configured size is evicted and reloaded from the metastore (and the KMS) in steady state")
		})
	}
	if n < 4 {
		c.bad("newKeyCache/policy-reads", "", fmt.Sprintf("expected at least 4 reads of per-cache policy fields, found %d", n))
	}
}
