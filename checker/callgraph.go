package main

// E-CALL: who-may-call / reachability over resolved callees (DESIGN §1.3).
//
//   - static calls resolve to their callee (generic instantiations to the generic body);
//   - interface invokes resolve to the method of every repo (non-test) type implementing the interface;
//   - calls through function values are resolved by **closure binding**: a function-typed parameter is bound, per call
//     site, to the closures/functions passed there (the `loader func(KeyMeta)` idiom), so loaders installed on the
//     encrypt path do not pollute the decrypt path; free variables, struct fields and never-reassigned package-level
//     function variables resolve to the values stored into them anywhere in the loaded program.
//
// Reachability is computed over configurations (function, bindings of its function-typed parameters).

import (
	"go/token"
	"go/types"
	"sort"
	"strings"

	"golang.org/x/tools/go/ssa"
)

type callGraph struct {
	u          *Universe
	implCache  map[string][]*ssa.Function
	fieldStore map[*types.Var][]ssa.Value // func-typed struct fields -> stored values
	globStore  map[*ssa.Global][]ssa.Value
	unresolved map[string]bool                // dynamic call sites with no resolvable target (reported in evidence notes)
	paramArgs  map[*ssa.Parameter][]ssa.Value // arguments passed at static call sites / invokes (context-insensitive binding)
}

type fnSet map[*ssa.Function]bool

type cgEnv map[*ssa.Parameter]fnSet

func (e cgEnv) key() string {
	var parts []string
	for p, s := range e {
		var names []string
		for f := range s {
			names = append(names, f.String())
		}
		sort.Strings(names)
		parts = append(parts, p.Name()+"="+strings.Join(names, ","))
	}
	sort.Strings(parts)
	return strings.Join(parts, ";")
}

type cgEdge struct {
	From *ssa.Function
	Site ssa.Instruction
}

func newCallGraph(u *Universe) *callGraph {
	g := &callGraph{u: u, implCache: map[string][]*ssa.Function{}, fieldStore: map[*types.Var][]ssa.Value{}, globStore: map[*ssa.Global][]ssa.Value{}, unresolved: map[string]bool{}}
	g.paramArgs = map[*ssa.Parameter][]ssa.Value{}
	for _, f := range u.RepoFuncs {
		allInstrs(f, func(i ssa.Instruction) {
			c := callOf(i)
			if c == nil {
				return
			}
			var targets []*ssa.Function
			if c.IsInvoke() {
				targets = g.invokeTargets(c)
			} else if s := c.StaticCallee(); s != nil {
				targets = []*ssa.Function{orig(s)}
			}
			args := callArgs(c)
			for _, t := range targets {
				for k, p := range t.Params {
					if k < len(args) {
						if _, isSig := p.Type().Underlying().(*types.Signature); isSig {
							g.paramArgs[p] = append(g.paramArgs[p], args[k])
						}
					}
				}
			}
		})
	}
	for _, f := range u.RepoFuncs {
		allInstrs(f, func(i ssa.Instruction) {
			st, ok := i.(*ssa.Store)
			if !ok {
				return
			}
			if _, isSig := st.Val.Type().Underlying().(*types.Signature); !isSig {
				return
			}
			switch a := st.Addr.(type) {
			case *ssa.FieldAddr:
				if v := structField(a.X.Type(), a.Field); v != nil {
					g.fieldStore[v] = append(g.fieldStore[v], st.Val)
				}
			case *ssa.Global:
				g.globStore[a] = append(g.globStore[a], st.Val)
			}
		})
	}
	return g
}

func structField(t types.Type, idx int) *types.Var {
	t = types.Unalias(t)
	if p, ok := t.Underlying().(*types.Pointer); ok {
		t = p.Elem()
	}
	if n, ok := types.Unalias(t).(*types.Named); ok {
		t = n.Origin()
	}
	if s, ok := t.Underlying().(*types.Struct); ok && idx < s.NumFields() {
		return s.Field(idx)
	}
	return nil
}

// implementations of the interface method for an invoke.
func (g *callGraph) invokeTargets(c *ssa.CallCommon) []*ssa.Function {
	it, ok := types.Unalias(c.Value.Type()).Underlying().(*types.Interface)
	if !ok {
		return nil
	}
	key := c.Value.Type().String() + "." + c.Method.Name()
	if r, ok := g.implCache[key]; ok {
		return r
	}
	var out []*ssa.Function
	if n, isNamed := types.Unalias(c.Value.Type()).(*types.Named); isNamed && n.TypeArgs().Len() > 0 || hasTypeParams(c.Value.Type()) {
		// generic interface (cache.Interface[K,V], policy[K,V]): match generic repo types by method name set
		for _, p := range g.u.Pkgs {
			sc := p.Types.Scope()
			for _, nm := range sc.Names() {
				tn, ok := sc.Lookup(nm).(*types.TypeName)
				if !ok || tn.IsAlias() {
					continue
				}
				nt, ok := tn.Type().(*types.Named)
				if !ok {
					continue
				}
				if _, isI := nt.Underlying().(*types.Interface); isI {
					continue
				}
				if implementsByName(nt, it) {
					for k := 0; k < nt.NumMethods(); k++ {
						if nt.Method(k).Name() == c.Method.Name() {
							if fn := g.u.Prog.FuncValue(nt.Method(k)); fn != nil {
								out = append(out, fn)
							}
						}
					}
				}
			}
		}
	} else {
		for _, nt := range g.u.Implementations(it) {
			if fn := g.u.MethodOf(nt, c.Method.Name()); fn != nil {
				out = append(out, orig(fn))
			}
		}
	}
	g.implCache[key] = out
	return out
}

func hasTypeParams(t types.Type) bool {
	n, ok := types.Unalias(t).(*types.Named)
	return ok && (n.TypeArgs().Len() > 0 || n.TypeParams().Len() > 0)
}

// implementsByName: every method of the interface exists by name on the named type (used for generic types where
// types.Implements needs an instantiation).
func implementsByName(n *types.Named, it *types.Interface) bool {
	if it.NumMethods() == 0 {
		return false
	}
	have := map[string]bool{}
	for k := 0; k < n.NumMethods(); k++ {
		have[n.Method(k).Name()] = true
	}
	// embedded struct fields' promoted methods are ignored (not used by the generic types of this repository)
	for k := 0; k < it.NumMethods(); k++ {
		if !have[it.Method(k).Name()] {
			return false
		}
	}
	return true
}

// funcValues resolves a function-typed value to the set of functions it may denote.
func (g *callGraph) funcValues(v ssa.Value, env cgEnv, depth int) fnSet {
	out := fnSet{}
	if depth > 12 || v == nil {
		return out
	}
	switch x := v.(type) {
	case *ssa.Function:
		out[orig(x)] = true
	case *ssa.MakeClosure:
		if f, ok := x.Fn.(*ssa.Function); ok {
			out[orig(f)] = true
		}
	case *ssa.Parameter:
		if env == nil {
			// context-insensitive: everything any caller passes
			for _, a := range g.paramArgs[x] {
				for f := range g.funcValues(a, nil, depth+1) {
					out[f] = true
				}
			}
			break
		}
		for f := range env[x] {
			out[f] = true
		}
	case *ssa.FreeVar:
		fn := x.Parent()
		idx := -1
		for i, fv := range fn.FreeVars {
			if fv == x {
				idx = i
			}
		}
		for _, mc := range makeClosuresOf(fn) {
			if idx >= 0 && idx < len(mc.Bindings) {
				for f := range g.funcValues(mc.Bindings[idx], nil, depth+1) {
					out[f] = true
				}
			}
		}
	case *ssa.Phi:
		for _, e := range x.Edges {
			for f := range g.funcValues(e, env, depth+1) {
				out[f] = true
			}
		}
	case *ssa.ChangeType:
		return g.funcValues(x.X, env, depth+1)
	case *ssa.MakeInterface:
		return g.funcValues(x.X, env, depth+1)
	case *ssa.Alloc:
		// variable captured by reference: union of stores
		for _, s := range localStores(x) {
			for f := range g.funcValues(s, env, depth+1) {
				out[f] = true
			}
		}
	case *ssa.UnOp:
		if x.Op != token.MUL {
			break
		}
		switch a := x.X.(type) {
		case *ssa.Global:
			for _, s := range g.globStore[a] {
				for f := range g.funcValues(s, nil, depth+1) {
					out[f] = true
				}
			}
		case *ssa.FieldAddr:
			if fv := structField(a.X.Type(), a.Field); fv != nil {
				for _, s := range g.fieldStore[fv] {
					for f := range g.funcValues(s, nil, depth+1) {
						out[f] = true
					}
				}
			}
		case *ssa.Alloc:
			for _, s := range localStores(a) {
				for f := range g.funcValues(s, env, depth+1) {
					out[f] = true
				}
			}
		case *ssa.FreeVar:
			for f := range g.funcValues(a, env, depth+1) {
				out[f] = true
			}
		}
	case *ssa.Call:
		// a call returning a function: the closures it returns
		if callee := staticCallee(x); callee != nil && callee.Blocks != nil {
			for _, r := range returnsOf(callee) {
				for _, res := range r.Results {
					if _, isSig := res.Type().Underlying().(*types.Signature); isSig {
						for f := range g.funcValues(res, nil, depth+1) {
							out[f] = true
						}
					}
				}
			}
		}
	}
	return out
}

// calleesAt resolves the targets of call instruction i in function fn under env, with the env for each target.
func (g *callGraph) calleesAt(i ssa.Instruction, env cgEnv) map[*ssa.Function]cgEnv {
	c := callOf(i)
	if c == nil {
		return nil
	}
	out := map[*ssa.Function]cgEnv{}
	bind := func(t *ssa.Function, args []ssa.Value) {
		ne := out[t]
		if ne == nil {
			ne = cgEnv{}
			out[t] = ne
		}
		if t.Blocks == nil {
			return
		}
		for k, p := range t.Params {
			if k >= len(args) {
				break
			}
			if _, isSig := p.Type().Underlying().(*types.Signature); !isSig {
				continue
			}
			fv := g.funcValues(args[k], env, 0)
			if len(fv) == 0 {
				continue
			}
			if ne[p] == nil {
				ne[p] = fnSet{}
			}
			for f := range fv {
				ne[p][f] = true
			}
		}
	}
	switch {
	case c.IsInvoke():
		for _, t := range g.invokeTargets(c) {
			bind(t, append([]ssa.Value{c.Value}, c.Args...))
		}
	default:
		if f := c.StaticCallee(); f != nil {
			t := orig(f)
			args := c.Args
			if mc, ok := c.Value.(*ssa.MakeClosure); ok {
				_ = mc
			}
			bind(t, args)
		} else {
			ts := g.funcValues(c.Value, env, 0)
			if len(ts) == 0 {
				if b, isB := c.Value.(*ssa.Builtin); !isB || b == nil {
					g.unresolved[g.u.ipos(i)+" "+instrText(i)] = true
				}
			}
			for t := range ts {
				bind(t, c.Args)
			}
		}
	}
	// function values passed as arguments to functions without bodies (external: sort.Slice, sync.Once.Do, fmt via
	// interfaces are not followed) are assumed to be invoked by them
	return out
}

// externalCallbacks: functions passed as arguments to calls whose callee has no body in the program (e.g. once.Do(f),
// sort.Slice(x, less)); they may be invoked by the callee.
func (g *callGraph) externalCallbacks(i ssa.Instruction, env cgEnv) fnSet {
	c := callOf(i)
	out := fnSet{}
	if c == nil {
		return out
	}
	hasBody := false
	if !c.IsInvoke() {
		if f := c.StaticCallee(); f != nil && orig(f).Blocks != nil {
			hasBody = true
		}
		if c.StaticCallee() == nil {
			return out
		}
	} else if len(g.invokeTargets(c)) > 0 {
		hasBody = true
	}
	if hasBody {
		return out
	}
	for _, a := range c.Args {
		if _, isSig := a.Type().Underlying().(*types.Signature); isSig {
			for f := range g.funcValues(a, env, 0) {
				out[f] = true
			}
		}
	}
	return out
}

// reachableFrom returns every function reachable from start, with the edge through which it was first reached.
func (g *callGraph) reachableFrom(start *ssa.Function) map[*ssa.Function]*cgEdge {
	return g.reachableFromAvoiding(start, nil)
}

// reachableFromAvoiding: as reachableFrom but never enters functions for which stop returns true (they are recorded as
// reached, not expanded).
func (g *callGraph) reachableFromAvoiding(start *ssa.Function, stop func(*ssa.Function) bool) map[*ssa.Function]*cgEdge {
	reach := map[*ssa.Function]*cgEdge{start: {}}
	type cfgKey struct {
		f   *ssa.Function
		env string
	}
	seen := map[cfgKey]bool{}
	type item struct {
		f   *ssa.Function
		env cgEnv
	}
	work := []item{{start, cgEnv{}}}
	for len(work) > 0 {
		it := work[len(work)-1]
		work = work[:len(work)-1]
		k := cfgKey{it.f, it.env.key()}
		if seen[k] {
			continue
		}
		seen[k] = true
		if it.f.Blocks == nil || (stop != nil && it.f != start && stop(it.f)) {
			continue
		}
		allInstrs(it.f, func(i ssa.Instruction) {
			for t, ne := range g.calleesAt(i, it.env) {
				if reach[t] == nil {
					reach[t] = &cgEdge{From: it.f, Site: i}
				}
				work = append(work, item{t, ne})
			}
			for t := range g.externalCallbacks(i, it.env) {
				if reach[t] == nil {
					reach[t] = &cgEdge{From: it.f, Site: i}
				}
				work = append(work, item{t, cgEnv{}})
			}
		})
	}
	return reach
}

func (g *callGraph) pathTo(reach map[*ssa.Function]*cgEdge, f *ssa.Function) []string {
	var out []string
	for n := 0; f != nil && n < 64; n++ {
		out = append(out, trimPkgDirs(shortName(f)))
		e := reach[f]
		if e == nil || e.From == nil {
			break
		}
		f = e.From
	}
	for l, r := 0, len(out)-1; l < r; l, r = l+1, r-1 {
		out[l], out[r] = out[r], out[l]
	}
	return out
}

// callersOf: context-insensitive — every (function, call site) whose resolved targets include fn.
func (g *callGraph) callersOf(fn *ssa.Function) []cgEdge {
	var out []cgEdge
	for _, f := range g.u.RepoFuncs {
		allInstrs(f, func(i ssa.Instruction) {
			c := callOf(i)
			if c == nil {
				return
			}
			if c.IsInvoke() {
				for _, t := range g.invokeTargets(c) {
					if t == fn {
						out = append(out, cgEdge{From: f, Site: i})
					}
				}
				return
			}
			if s := c.StaticCallee(); s != nil {
				if orig(s) == fn {
					out = append(out, cgEdge{From: f, Site: i})
				}
				return
			}
			for t := range g.funcValues(c.Value, nil, 0) {
				if t == fn {
					out = append(out, cgEdge{From: f, Site: i})
				}
			}
		})
	}
	return out
}
