package main

// C14 — racing key creators converge; metastore never overwritten (DESIGN §3 C14). Mostly shared rules.

import (
	"go/token"
	"strings"

	"golang.org/x/tools/go/ssa"
)

func init() {
	register(&propSpec{
		ID:    "C14",
		Title: "Racing key creators converge on persisted keys; metastore is never overwritten",
		Explanation: "Structural necessary conditions of C14: nothing the SDK can call modifies or removes a stored row (C13.insert-only + C13.no-other-writes for all four metastores); a creator whose insert is refused " +
			"discards its unsaved key and adopts a stored one (C02.fresh-key-only-if-stored, C02.success-is-the-store-bool, C09.key-ownership on the loser's key); (loser-adopts-stored) after a refused store the function returns " +
			"only a key rebuilt from a record re-read with LoadLatest or an error; (parent-reresolved) an adopted IK record is unwrapped with the SK whose Created equals the record's ParentKeyMeta.Created — re-resolved " +
			"through the SK cache otherwise; (truncated-stamps) generated SK/IK stamps come from newKeyTimestamp(Policy.CreateDatePrecision) so racers collide on one row. The interleavings of processes — the heart of the property — are NOT decided.",
		NotDecided:  []string{"every interleaving of 2–3 processes at metastore-call granularity (the property's core)", "database behaviour under concurrent inserts", "clock skew between processes"},
		Assumptions: []string{"Metastore.Store is an atomic insert-if-absent (C13 checks the request shapes, not the database)"},
		Tech:        "static analysis: shared insert-only / store-result / ownership rules plus guarded-by-condition provenance of the unwrapping key",
		NeedU1:      true,
		NeedU2:      true,
		Rules: []func(*Ctx){ruleC13InsertOnly, ruleC13NoOtherWrites, ruleC13NothingOnlyWhenAbsent, ruleC02FreshKeyOnlyIfStored, ruleC02SuccessIsStoreBool, ruleC02RecordMatchesKey, ruleC14LoserAdoptsStored,
			ruleC14ParentReresolved, ruleC19OneSessionFactory, ruleC14StaticKeyIsStable, ruleC02CryptoKeyAsGiven, ruleC17ClientPerRegion, ruleC05PolicyDurationsVerbatim, deferredCloseSparesReturnedRule("C14", pkgApp, pkgInt), ruleC08EveryHandoutCounted, ruleC01LatestFetchedUnderOwnID, ruleC14LoadedRecordsNotModified, optionsCommuteRule("C14", pkgDynV1, pkgDynV2, pkgApp), ruleC04NewKeysStampedNow, ruleC01NoValidityGateOnRead, ruleC13ConsistentReads, ruleC13StoreResult, ruleC01ProvenanceDecrypt, ruleC13FieldFidelity, ruleC01CallerBuffersImmutable},
	})
}

// ruleC14LoserAdoptsStored: in the key-creating functions, on the store-refused edge the fresh key is closed and every
// non-error return yields a key built from a record obtained by mustLoadLatest (re-read), never the unsaved key.
func ruleC14LoserAdoptsStored(c *Ctx) {
	u := c.U1
	c.rule("C14.loser-adopts-stored", "in loadLatestOrCreateSystemKey / createIntermediateKey every successful return that is not on the store-succeeded edge returns a key built (systemKeyFromEKR / intermediateKeyFromEKR) from a record re-read after the refused store", 2)
	ts := storeClosure(u)
	mll := u.Method(pkgApp, "envelopeEncryption", "mustLoadLatest")
	if mll == nil {
		c.unresolved("mustLoadLatest", "(*envelopeEncryption).mustLoadLatest")
		return
	}
	for f := range ts {
		var gen ssa.Instruction
		allInstrs(f, func(i ssa.Instruction) {
			if _, ok := i.(*ssa.Call); ok && isKeyGenCall(u, i) {
				gen = i
			}
		})
		if gen == nil {
			continue
		}
		c.FuncsAnalysed[shortName(f)] = true
		// the try-store call
		var try *ssa.Call
		allInstrs(f, func(i ssa.Instruction) {
			if g := staticCallee(i); g != nil && ts[g] && instrDominates(gen, i) {
				if cv, ok := i.(*ssa.Call); ok {
					try = cv
				}
			}
		})
		if try == nil {
			c.undecided(shortName(f)+"/try-store", u.ipos(gen), "no try-store call after key generation")
			continue
		}
		for _, r := range returnsOf(f) {
			if !instrDominates(try, r) || isNilValue(returnedValue(r, 0)) {
				continue
			}
			construct := shortName(f) + "/return-after-store"
			stored := guardedBy(r, true, func(v ssa.Value) bool {
				ex, ok := strip(v).(*ssa.Extract)
				return ok && ex.Index == 0 && ex.Tuple == ssa.Value(try)
			})
			if stored {
				c.ok(construct, u.ipos(r), "store-succeeded edge (fresh key)")
				continue
			}
			// must be <x>FromEKR(record from mustLoadLatest made after the try-store) — here, or in a helper called after it
			good := adoptsStored(returnedValue(r, 0), mll, try, 0)
			c.check(good, construct, u.ipos(r), "adopts the key of a record re-read (mustLoadLatest) after the refused store", "after a refused store something other than a key rebuilt from the re-read stored record is returned: racing creators would not converge on the persisted key")
		}
	}
	// mustLoadLatest re-reads with LoadLatest and refuses nil
	c.FuncsAnalysed[shortName(mll)] = true
	ok := false
	allInstrs(mll, func(i ssa.Instruction) {
		if args, isLL := invokeOrForwarder(i, pkgApp, "Metastore", "LoadLatest"); isLL && len(args) > 1 && isParamNamed(args[1], mll, 2) {
			ok = true
		}
	})
	nonNil := true
	for _, r := range returnsOf(mll) {
		if isNilValue(returnedValue(r, 1)) && !isNilValue(returnedValue(r, 0)) && !knownNonNil(returnedValue(r, 0), r.Block()) {
			nonNil = false
		}
	}
	c.check(ok && nonNil, shortName(mll), u.pos(mll.Pos()), "LoadLatest(id); a nil record is an error", "mustLoadLatest does not re-read the latest record for the id, or can return a nil record without an error")
}

func ruleC14ParentReresolved(c *Ctx) {
	u := c.U1
	c.rule("C14.parent-reresolved", "in intermediateKeyFromEKR the key whose bytes decrypt ekr.EncryptedKey either passed sk.Created() == ekr.ParentKeyMeta.Created or is the result of getOrLoadSystemKey(*ekr.ParentKeyMeta)", 1)
	f := u.Method(pkgApp, "envelopeEncryption", "intermediateKeyFromEKR")
	if f == nil {
		c.unresolved("intermediateKeyFromEKR", "(*envelopeEncryption).intermediateKeyFromEKR")
		return
	}
	c.FuncsAnalysed[shortName(f)] = true
	var acc *ssa.Call
	allInstrs(f, func(i ssa.Instruction) {
		if cv, ok := i.(*ssa.Call); ok {
			if _, isAcc := accessorAction(cv); isAcc {
				acc = cv
			}
		}
	})
	var key ssa.Value
	var accBlock *ssa.BasicBlock
	if acc != nil {
		key = strip(callArgs(&acc.Call)[0])
		accBlock = acc.Block()
	} else {
		// the unwrap lives in a helper that is handed the key: the key is what f passes for the helper's accessor operand
		allInstrs(f, func(i ssa.Instruction) {
			cv, ok := i.(*ssa.Call)
			if !ok || key != nil {
				return
			}
			h := staticCallee(cv)
			if h == nil || h.Blocks == nil || h.Pkg == nil || h.Pkg.Pkg.Path() != pkgApp {
				return
			}
			allInstrs(h, func(j ssa.Instruction) {
				hc, isC := j.(*ssa.Call)
				if !isC {
					return
				}
				if _, isAcc := accessorAction(hc); !isAcc {
					return
				}
				a0 := resolve(callArgs(&hc.Call)[0])
				for k, p := range h.Params {
					if a0 == ssa.Value(p) && k < len(cv.Call.Args) {
						key = strip(cv.Call.Args[k])
						accBlock = cv.Block()
						c.FuncsAnalysed[shortName(h)] = true
					}
				}
			})
		})
	}
	if key == nil {
		c.bad(shortName(f)+"/unwrap", u.pos(f.Pos()), "no accessor call unwrapping the record")
		return
	}
	// each way the key value can arrive (phi edges, or the returns of a helper that picks the key): the sk parameter needs
	// the equality guard; the re-resolved key must come from getOrLoadSystemKey(*ekr.ParentKeyMeta)
	var problems []string
	type way struct {
		v     ssa.Value
		facts func(cond func([]Fact) bool) bool // does cond hold on every entry to the point where v is chosen
	}
	var ways []way
	fn, skIdx, ekrIdx := f, 1, 2
	if ex, isEx := key.(*ssa.Extract); isEx && ex.Index == 0 {
		if cv, isC := ex.Tuple.(*ssa.Call); isC {
			if h := staticCallee(cv); h != nil && h.Blocks != nil && h.Name() != "getOrLoadSystemKey" && h.Pkg != nil && h.Pkg.Pkg.Path() == pkgApp {
				// a helper chooses the key: analyse its non-error returns in its own frame
				si, ei := -1, -1
				for k, a := range cv.Call.Args {
					if isParamNamed(a, f, 1) || resolve(a) == ssa.Value(f.Params[1]) || accessPath(a) == "P:"+f.Params[1].Name() {
						si = k
					}
					if isParamNamed(a, f, 2) || resolve(a) == ssa.Value(f.Params[2]) || accessPath(a) == "P:"+f.Params[2].Name() {
						ei = k
					}
				}
				if si >= 0 && ei >= 0 {
					fn, skIdx, ekrIdx = h, si, ei
					c.FuncsAnalysed[shortName(h)] = true
					for _, r := range returnsOf(h) {
						if len(r.Results) != 2 || !isNilValue(returnedValue(r, 1)) {
							continue
						}
						rb := r.Block()
						ways = append(ways, way{strip(returnedValue(r, 0)), func(cond func([]Fact) bool) bool { return holdsOnAllEntries(rb, cond) }})
					}
				}
			}
		}
	}
	if len(ways) == 0 {
		if phi, ok := key.(*ssa.Phi); ok {
			for k, e := range phi.Edges {
				p, pb := phi.Block().Preds[k], phi.Block()
				ways = append(ways, way{strip(e), func(cond func([]Fact) bool) bool {
					return cond(append(edgeFacts(p, pb), factsAt(p)...))
				}})
			}
		} else {
			ab := accBlock
			ways = append(ways, way{key, func(cond func([]Fact) bool) bool { return holdsOnAllEntries(ab, cond) }})
		}
	}
	ekrPath := "P:" + fn.Params[ekrIdx].Name()
	for _, w := range ways {
		e := w.v
		switch {
		case isParamNamed(e, fn, skIdx):
			// here sk.Created() == ekr.ParentKeyMeta.Created must hold, or ekr/ParentKeyMeta is nil (nothing to compare)
			ok := w.facts(func(facts []Fact) bool {
				for _, fct := range facts {
					if xx, isNil, isT := nilTest(fct); isT && isNil && (strings.HasSuffix(accessPath(xx), ekrPath+".ParentKeyMeta") || accessPath(xx) == ekrPath) {
						return true // no parent meta to compare against
					}
					b, isB := fct.V.(*ssa.BinOp)
					if !isB {
						continue
					}
					x, y := createdOf(b.X), createdOf(b.Y)
					isPM := func(v ssa.Value) bool { return strings.HasSuffix(accessPath(v), ekrPath+".ParentKeyMeta.Created") }
					match := (x != nil && isParamNamed(x, fn, skIdx) && isPM(b.Y)) || (y != nil && isParamNamed(y, fn, skIdx) && isPM(b.X))
					if match && ((b.Op == token.NEQ && !fct.True) || (b.Op == token.EQL && fct.True)) {
						return true
					}
				}
				return false
			})
			if !ok {
				problems = append(problems, "the passed-in system key is used without the sk.Created() == ekr.ParentKeyMeta.Created test")
			}
		default:
			good := false
			if ex, isEx := e.(*ssa.Extract); isEx {
				if cv, isC := ex.Tuple.(*ssa.Call); isC {
					if g := staticCallee(cv); g != nil && g.Name() == "getOrLoadSystemKey" && strings.TrimPrefix(accessPath(cv.Call.Args[2]), "*") == ekrPath+".ParentKeyMeta" {
						good = true
					}
				}
			}
			if !good {
				problems = append(problems, "a system key of unknown provenance unwraps the record: "+accessPath(e))
			}
		}
	}
	accPos := u.pos(f.Pos())
	if acc != nil {
		accPos = u.ipos(acc)
	} else if accBlock != nil && len(accBlock.Instrs) > 0 {
		accPos = u.ipos(accBlock.Instrs[0])
	}
	c.check(len(problems) == 0, shortName(f)+"/unwrapping-key", accPos, "unwrapped with the SK version the record names (equality test or re-resolved through the SK cache)", strings.Join(problems, "; "))
}

// adoptsStored: v is <x>FromEKR(record) with the record re-read by mustLoadLatest after `after` (nil: anywhere in the
// function), or the key result of a package helper called after `after` all of whose non-nil key returns are such values.
func adoptsStored(v ssa.Value, mll *ssa.Function, after ssa.Instruction, depth int) bool {
	var call *ssa.Call
	switch x := strip(v).(type) {
	case *ssa.Call:
		call = x
	case *ssa.Extract:
		call, _ = x.Tuple.(*ssa.Call)
	}
	if call == nil || depth > 2 {
		return false
	}
	if after != nil && !instrDominates(after, call) {
		return false
	}
	g := staticCallee(call)
	if g == nil {
		return false
	}
	if g.Name() == "systemKeyFromEKR" || g.Name() == "intermediateKeyFromEKR" {
		rec := resolve(call.Call.Args[2])
		if ex, ok := rec.(*ssa.Extract); ok {
			if lc, ok := ex.Tuple.(*ssa.Call); ok && staticCallee(lc) == mll && (after == nil || instrDominates(after, lc)) {
				return true
			}
		}
		return false
	}
	if g.Blocks == nil || g.Pkg == nil || g.Pkg.Pkg.Path() != pkgApp {
		return false
	}
	n := 0
	for _, hr := range returnsOf(g) {
		if len(hr.Results) == 0 || isNilValue(returnedValue(hr, 0)) {
			continue
		}
		n++
		if !adoptsStored(returnedValue(hr, 0), mll, nil, depth+1) {
			return false
		}
	}
	return n > 0
}
