package main

// C13 — every metastore is an insert-only, read-your-writes table (DESIGN §3 C13). E-LIT + E-DOM + E-CALL.
// Instances are discovered from types: every non-test type in U1 implementing appencryption.Metastore.

import (
	"fmt"
	"go/constant"
	"go/token"
	"go/types"
	"regexp"
	"sort"
	"strings"

	"golang.org/x/tools/go/ssa"
)

func init() {
	register(&propSpec{
		ID:    "C13",
		Title: "Every metastore implementation is an insert-only, read-your-writes key table",
		Explanation: "Structural necessary conditions of C13 for EVERY type implementing appencryption.Metastore (discovered from types; 4 today): (insert-only) memory: the map write is on the absent edge of a lookup of the same " +
			"(id, created) under the write lock; SQL: the only statement reaching ExecContext is a constant INSERT … VALUES without REPLACE/ON DUPLICATE/ON CONFLICT/UPDATE/DELETE, placeholders = arguments, and the dialect " +
			"rewrite only renumbers placeholders; DynamoDB v1+v2: every PutItemInput carries ConditionExpression = attribute_not_exists(<partition key attribute>) and that attribute is a key of Item; " +
			"(no-other-writes) the DynamoDB client interfaces expose only Get/Put/Query(+Options), no other SQL constant reaches database/sql, nothing but Store/constructor writes MemoryMetastore.Envelopes; " +
			"(store-result) Store returns true only on the err == nil edge of the backend write (after the map write) and false everywhere else; (consistent-reads) every GetItemInput/QueryInput has ConsistentRead=true, " +
			"LoadLatest queries are descending Limit 1 on the id key, SQL constants have the WHERE / ORDER BY created DESC LIMIT 1 shape, memory reads hold the lock; (field-fidelity) the wire structs and the " +
			"struct-to-struct conversions carry every field from its namesake, base64 on both sides, an optional ParentKeyMeta converted exactly where the source is non-nil; (key-fidelity) every back end addresses a row by exactly (keyID, created) — " +
			"Envelopes[keyID][created], bind (keyID, time.Unix(created,0)), Id = S:keyID / Created = N:FormatInt(created,10) — in Store and in Load; Store reports true after a successful write; MemoryMetastore's lock is balanced. What real databases do with these requests is not decided.",
		NotDecided:  []string{"behaviour of real databases / DynamoDB semantics of the requests", "ordering over histories, replica consistency", "that MemoryMetastore.LoadLatest picks the maximum (value-level; test-only backend)", "SQL driver behaviour, table schema (primary key on (id, created) is assumed from docs/Metastore.md)"},
		Assumptions: []string{"the SQL table has PRIMARY KEY (id, created) as documented", "DynamoDB attribute_not_exists(<hash key>) rejects an existing item with the same primary key"},
		Tech:        "static analysis: request-shape analysis (constant-folded struct-literal fields, SQL constants tokenised), guarded-by-condition, lock-state dataflow, interface method-set and who-writes checks across all Metastore implementations",
		NeedU1:      true,
		NeedU2:      true,
		Rules:       []func(*Ctx){ruleC13InsertOnly, ruleC13NoOtherWrites, ruleC13StoreResult, ruleC13ConsistentReads, ruleC13FieldFidelity, ruleC13KeyFidelity, ruleC13DecodeIntoFresh, ruleC13MemoryLatestByKey, ruleC13ReadsHitBackend, ruleC13NothingOnlyWhenAbsent, ruleC13ProjectionCoversRecord, ruleC13LatestFirstOfOneQuery, ruleC13RecordLiteralsComplete, ruleC13QueryUnfilteredAndPerCall, ruleC13LatestQueryKeyedByIDAlone, ruleC13OneLookupUnderTheRequestedID, ruleC13LatestNotSeededByConstant, ruleC13RowUsedOnlyWhenPresent, presizedThenAppendedRule("C13", pkgPersist, pkgDynV1, pkgDynV2), errorsPropagateRule("C13", 10, c13ErrExempt, pkgPersist, pkgDynV1, pkgDynV2), lockBalancedRule("C13", 3, lockDomSpec{pkgPersist, "MemoryMetastore", "RWMutex"}), ruleC13SidecarMetastoreWiring, ruleC13DecodedRecordComplete, ruleC13KMSInputNotModified, ruleC18Tags, ruleC13RequestsNameTheConfiguredTable, ruleC19OptionComparedToItsOwnChoices},
	})
}

type metastoreImpl struct {
	N    *types.Named
	Kind string // memory | sql | dynamo-v1 | dynamo-v2 | unknown
}

var c13ErrExempt = map[string]map[string]string{}

func metastoreImpls(c *Ctx) []metastoreImpl {
	u := c.U1
	iface := u.Iface(pkgApp, "Metastore")
	if iface == nil {
		return nil
	}
	var out []metastoreImpl
	for _, n := range u.Implementations(iface) {
		kind := "unknown"
		switch {
		case n.Obj().Pkg().Path() == pkgPersist && n.Obj().Name() == "MemoryMetastore":
			kind = "memory"
		case n.Obj().Pkg().Path() == pkgPersist && n.Obj().Name() == "SQLMetastore":
			kind = "sql"
		case n.Obj().Pkg().Path() == pkgDynV1:
			kind = "dynamo-v1"
		case n.Obj().Pkg().Path() == pkgDynV2:
			kind = "dynamo-v2"
		}
		out = append(out, metastoreImpl{n, kind})
	}
	return out
}

// awsPtrConst: aws.String("x") / aws.Bool(true) / aws.Int64(1) / aws.Int32(1) → the constant.
func awsPtrConst(v ssa.Value) (constant.Value, bool) {
	cv, ok := resolve(v).(*ssa.Call)
	if !ok {
		return nil, false
	}
	f := staticCallee(cv)
	if f == nil || f.Pkg == nil {
		return nil, false
	}
	p := f.Pkg.Pkg.Path()
	if p != "github.com/aws/aws-sdk-go/aws" && p != "github.com/aws/aws-sdk-go-v2/aws" {
		return nil, false
	}
	switch f.Name() {
	case "String", "Bool", "Int64", "Int32", "Int":
		return constOf(cv.Call.Args[0])
	}
	return nil, false
}

// mapLitKeys: constant string keys written into the map value v (a MakeMap in the same function).
func mapLitKeys(v ssa.Value) []string {
	if v == nil {
		return nil
	}
	ents, _ := mapLit(v)
	var out []string
	for k := range ents {
		out = append(out, k)
	}
	sort.Strings(out)
	return out
}

// requestLits: for every call on the metastore's client field `svc` whose method name has the given prefix, the
// struct literal (Alloc) passed as the input argument.
type requestSite struct {
	F     *ssa.Function
	Call  ssa.Instruction
	Input *ssa.Alloc
	Meth  string
}

func clientRequests(u *Universe, pkg string, prefix string) []requestSite {
	var out []requestSite
	for _, f := range u.RepoFuncs {
		if f.Pkg == nil || f.Pkg.Pkg.Path() != pkg {
			continue
		}
		allInstrs(f, func(i ssa.Instruction) {
			cc := callOf(i)
			if cc == nil || !cc.IsInvoke() || !strings.HasPrefix(cc.Method.Name(), prefix) {
				return
			}
			if _, fld, ok := fieldAccess(cc.Value); !ok || fld != "svc" {
				return
			}
			var in *ssa.Alloc
			if len(cc.Args) >= 2 {
				in = allocOf(cc.Args[1])
				if in == nil {
					in = helperBuiltInput(cc.Args[1], f)
				}
			}
			out = append(out, requestSite{f, i, in, cc.Method.Name()})
		})
	}
	return out
}

var sqlForbidden = regexp.MustCompile(`(?i)\b(REPLACE|UPDATE|DELETE|UPSERT|MERGE|IGNORE|TRUNCATE|DROP|ALTER)\b|ON\s+DUPLICATE|ON\s+CONFLICT`)
var sqlInsertShape = regexp.MustCompile(`(?i)^\s*INSERT\s+INTO\s+\S+\s*\(([^)]*)\)\s*VALUES\s*\(([^)]*)\)\s*$`)

// sqlFieldConstants: for the SQLMetastore query fields, the constants stored into them (through t.q(...) rewrites).
func sqlFieldConstants(u *Universe, field string) (consts []string, other []string) {
	for _, f := range u.RepoFuncs {
		if f.Pkg == nil || f.Pkg.Pkg.Path() != pkgPersist {
			continue
		}
		allInstrs(f, func(i ssa.Instruction) {
			st, ok := i.(*ssa.Store)
			if !ok {
				return
			}
			base, fld, isF := fieldAccess(st.Addr)
			if !isF || fld != field || !typeIsNamed(base.Type(), pkgPersist, "SQLMetastore") {
				return
			}
			v := resolve(st.Val)
			if k, isC := constOf(v); isC && k.Kind() == constant.String {
				consts = append(consts, constant.StringVal(k))
				return
			}
			if cv, isCall := v.(*ssa.Call); isCall {
				if g := staticCallee(cv); g != nil && g.Name() == "q" && g.Pkg.Pkg.Path() == pkgPersist {
					// rewrite of the same field
					if _, f2, ok2 := fieldAccess(resolve(cv.Call.Args[1])); ok2 && f2 == field {
						return
					}
				}
			}
			other = append(other, u.ipos(i)+" "+instrText(i))
		})
	}
	return
}

func ruleC13InsertOnly(c *Ctx) {
	u := c.U1
	c.rule("C13.insert-only", "per Metastore implementation: Store can only insert a row that does not exist (absent-edge map write under the write lock / constant INSERT…VALUES with matching placeholders / PutItem with attribute_not_exists on a key attribute)", 5)
	impls := metastoreImpls(c)
	if len(impls) == 0 {
		c.unresolved("Metastore", "implementations of appencryption.Metastore")
		return
	}
	for _, m := range impls {
		store := u.MethodOf(m.N, "Store")
		name := trimPkgDirs(shortName(store))
		if store == nil || store.Blocks == nil {
			c.unresolved(m.N.String()+".Store", "method body")
			continue
		}
		c.FuncsAnalysed[shortName(store)] = true
		switch m.Kind {
		case "memory":
			d := newLockDomain(u, pkgPersist, "MemoryMetastore", "RWMutex")
			n := 0
			allInstrs(store, func(i ssa.Instruction) {
				mu, ok := i.(*ssa.MapUpdate)
				if !ok {
					return
				}
				n++
				construct := name + "/map-write"
				inner := false
				if lk, isL := resolve(mu.Map).(*ssa.Lookup); isL {
					inner = strings.HasSuffix(accessPath(lk.X), ".Envelopes")
				}
				outer := strings.HasSuffix(accessPath(mu.Map), ".Envelopes")
				if !inner && !outer {
					return
				}
				// absent edge of a lookup of the same key(s)
				absent := false
				var lookups []*ssa.Lookup
				for _, fct := range factsAt(i.Block()) {
					ex, isEx := strip(fct.V).(*ssa.Extract)
					if !isEx || ex.Index != 1 || fct.True {
						continue
					}
					lk, isL := ex.Tuple.(*ssa.Lookup)
					if !isL || !lk.CommaOk {
						continue
					}
					if inner {
						if l2, isL2 := resolve(lk.X).(*ssa.Lookup); isL2 && strip(l2.Index) == strip(resolve(mu.Map).(*ssa.Lookup).Index) && strip(lk.Index) == strip(mu.Key) {
							absent = true
							lookups = append(lookups, lk)
						}
					} else if strip(lk.Index) == strip(mu.Key) && strings.HasSuffix(accessPath(lk.X), ".Envelopes") {
						absent = true
						lookups = append(lookups, lk)
					}
				}
				st := d.stateAt(i)
				// check-then-act must be one critical section: the lookup runs under the write lock and the lock is not
				// released between the lookup and the write
				sameSection := true
				rp := recvPathOf(store)
				for _, lk := range lookups {
					if d.stateAt(lk) != lsW {
						sameSection = false
					}
					found, _ := pathSearch(lk, func(j ssa.Instruction) pathAction {
						if j == i {
							return pathStop
						}
						if op, ok := d.lockOp(j, rp); ok && op == lsU && reaches(j, i) {
							return pathFound
						}
						return pathContinue
					}, nil)
					if found {
						sameSection = false
					}
				}
				switch {
				case absent && !sameSection:
					c.bad(construct, u.ipos(i), "the 'not present' lookup and the map write are not in one write-locked critical section (check-then-act race: two concurrent Stores of the same key both insert and both report true)")
				case !absent:
					c.bad(construct, u.ipos(i), "the map is written without being on the 'not present' edge of a lookup of the same key: an existing record can be overwritten")
				case st != lsW:
					c.bad(construct, u.ipos(i), "the map is written while the metastore lock may be "+st.String())
				default:
					c.ok(construct, u.ipos(i), "written only on the absent edge of a lookup of the same key, under the write lock")
				}
			})
			if n == 0 {
				c.bad(name+"/map-write", u.pos(store.Pos()), "Store never writes the map")
			}
		case "sql":
			consts, other := sqlFieldConstants(u, "storeKeyQuery")
			construct := name + "/statement"
			nargs := -1
			okField := false
			allInstrs(store, func(i ssa.Instruction) {
				if staticIs(i, "(*database/sql.DB).ExecContext") {
					cc := callOf(i)
					if _, fld, ok := fieldAccess(resolve(cc.Args[2])); ok && fld == "storeKeyQuery" {
						okField = true
					}
					nargs = len(varargValues(cc.Args[3]))
				}
			})
			switch {
			case !okField:
				c.bad(construct, u.pos(store.Pos()), "ExecContext is not called with the storeKeyQuery field")
			case len(other) > 0:
				c.bad(construct, u.pos(store.Pos()), "storeKeyQuery receives a non-constant value: "+strings.Join(other, "; "))
			case len(consts) == 0:
				c.bad(construct, u.pos(store.Pos()), "no constant statement reaches storeKeyQuery")
			default:
				bad := ""
				for _, q := range consts {
					m := sqlInsertShape.FindStringSubmatch(q)
					switch {
					case m == nil:
						bad = fmt.Sprintf("statement %q is not `INSERT INTO t (cols) VALUES (…)`", q)
					case sqlForbidden.MatchString(q):
						bad = fmt.Sprintf("statement %q contains an overwrite/upsert clause", q)
					case strings.Count(q, "?") != nargs:
						bad = fmt.Sprintf("statement %q has %d placeholders for %d arguments", q, strings.Count(q, "?"), nargs)
					case len(strings.Split(m[1], ",")) != strings.Count(m[2], "?"):
						bad = fmt.Sprintf("statement %q: column list and VALUES placeholders differ", q)
					}
				}
				c.check(bad == "", construct, u.pos(store.Pos()), fmt.Sprintf("constant %q, %d args", consts, nargs), bad)
			}
			// dialect rewrite only renumbers placeholders
			if q := u.Method(pkgPersist, "SQLMetastoreDBType", "q"); q == nil {
				c.unresolved(name+"/dialect-rewrite", "(SQLMetastoreDBType).q")
			} else {
				c.FuncsAnalysed[shortName(q)] = true
				good := true
				why := ""
				for _, r := range returnsOf(q) {
					v := resolve(returnedValue(r, 0))
					if isParamNamed(v, q, 1) {
						continue
					}
					cv, isCall := v.(*ssa.Call)
					if isCall && staticIs(cv, "(*regexp.Regexp).ReplaceAllStringFunc") && isParamNamed(cv.Call.Args[1], q, 1) && regexpGlobalPattern(u, cv.Call.Args[0]) == `\?` {
						continue
					}
					good = false
					why = "q() returns something other than its input or qrx(`\\?`).ReplaceAllStringFunc(input, …): " + instrTextV(v)
				}
				c.check(good, name+"/dialect-rewrite", u.pos(q.Pos()), "returns the statement unchanged or with only `?` placeholders renumbered", why)
			}
		case "dynamo-v1", "dynamo-v2":
			reqs := clientRequests(u, m.N.Obj().Pkg().Path(), "PutItem")
			if len(reqs) == 0 {
				c.bad(name+"/PutItem", u.pos(store.Pos()), "no PutItem request found")
			}
			for _, r := range reqs {
				construct := trimPkgDirs(shortName(r.F)) + "/" + r.Meth
				if r.Input == nil {
					c.undecided(construct, u.ipos(r.Call), "PutItem input is not a struct literal in this function")
					continue
				}
				fl := litFields(r.Input)
				ce, isC := awsPtrConst(fl["ConditionExpression"])
				keys := mapLitKeys(fl["Item"])
				re := regexp.MustCompile(`^attribute_not_exists\((\w+)\)$`)
				switch {
				case !isC || ce.Kind() != constant.String:
					c.bad(construct, u.ipos(r.Call), "PutItem without a constant ConditionExpression: an existing key record would be overwritten")
				default:
					mm := re.FindStringSubmatch(constant.StringVal(ce))
					hasKey := false
					if mm != nil {
						for _, k := range keys {
							if k == mm[1] {
								hasKey = true
							}
						}
					}
					isKeyAttr := mm != nil && (mm[1] == "Id" || mm[1] == "Created")
					c.check(mm != nil && hasKey && isKeyAttr, construct, u.ipos(r.Call), fmt.Sprintf("ConditionExpression %s over Item keys %v", ce.ExactString(), keys),
						fmt.Sprintf("ConditionExpression %s is not attribute_not_exists(<primary-key attribute present in Item %v>)", ce.ExactString(), keys))
				}
			}
		default:
			c.undecided(name, u.pos(store.Pos()), "a Metastore implementation of an unknown kind: no insert-only rule is defined for it")
		}
	}
}

// regexpGlobalPattern: v is a load of a package-level *regexp.Regexp initialised by regexp.MustCompile(const).
func regexpGlobalPattern(u *Universe, v ssa.Value) string {
	ld, ok := resolve(v).(*ssa.UnOp)
	if !ok {
		return ""
	}
	g, ok := ld.X.(*ssa.Global)
	if !ok {
		return ""
	}
	pat := ""
	n := 0
	for _, f := range u.RepoFuncs {
		allInstrs(f, func(i ssa.Instruction) {
			if st, ok := i.(*ssa.Store); ok && st.Addr == g {
				n++
				if cv, isCall := resolve(st.Val).(*ssa.Call); isCall && (staticIs(cv, "regexp.MustCompile") || staticIs(cv, "regexp.Compile")) {
					if k, isC := constOf(cv.Call.Args[0]); isC && k.Kind() == constant.String {
						pat = constant.StringVal(k)
					}
				}
			}
		})
	}
	if n != 1 {
		return ""
	}
	return pat
}

func ruleC13NoOtherWrites(c *Ctx) {
	u := c.U1
	c.rule("C13.no-other-writes", "the DynamoDB client interfaces the plugins depend on expose only Get/Put/Query(+Options); database/sql is reached only with the three query fields; only Store/the constructor write MemoryMetastore.Envelopes", 4)
	for _, spec := range []struct {
		pkg, iface string
		allowed    []string
	}{
		{pkgDynV1, "DynamoDBClientAPI", []string{"GetItemWithContext", "PutItemWithContext", "QueryWithContext"}},
		{pkgDynV2, "DynamoDBClient", []string{"GetItem", "Options", "PutItem", "Query"}},
	} {
		it := u.Iface(spec.pkg, spec.iface)
		construct := trimPkgDirs(spec.pkg) + "." + spec.iface
		if it == nil {
			c.unresolved(construct, "client interface")
			continue
		}
		var have []string
		for k := 0; k < it.NumMethods(); k++ {
			have = append(have, it.Method(k).Name())
		}
		sort.Strings(have)
		extra := []string{}
		for _, h := range have {
			ok := false
			for _, a := range spec.allowed {
				if a == h {
					ok = true
				}
			}
			if !ok {
				extra = append(extra, h)
			}
		}
		c.check(len(extra) == 0, construct, "", fmt.Sprintf("methods %v", have), fmt.Sprintf("the client interface exposes %v beyond Get/Put/Query: the SDK could modify or delete key records", extra))
		// the svc field has this interface type
		for _, n := range metastoreImpls(c) {
			if n.N.Obj().Pkg().Path() != spec.pkg {
				continue
			}
			st, _ := n.N.Underlying().(*types.Struct)
			okT := false
			for k := 0; st != nil && k < st.NumFields(); k++ {
				if st.Field(k).Name() == "svc" && typeIsNamed(st.Field(k).Type(), spec.pkg, spec.iface) {
					okT = true
				}
			}
			c.check(okT, construct+"/svc-field", "", "metastore talks to DynamoDB only through this interface", "the metastore's client field is no longer of the restricted interface type")
		}
	}
	// database/sql calls: only via the three fields
	nsql := 0
	for _, f := range u.RepoFuncs {
		if f.Pkg == nil || f.Pkg.Pkg.Path() != pkgPersist {
			continue
		}
		if _, _, isFwd := sqlForwarder(f); isFwd {
			continue // judged at its call sites, where the statement is chosen
		}
		allInstrs(f, func(i ssa.Instruction) {
			g := staticCallee(i)
			if qi, _, isFwd := sqlForwarder(g); isFwd {
				if _, isCall := i.(*ssa.Call); isCall && qi < len(callOf(i).Args) {
					nsql++
					c.CallSites++
					_, fld, ok := fieldAccess(resolve(callOf(i).Args[qi]))
					want := map[string]string{"Store": "storeKeyQuery", "Load": "loadKeyQuery", "LoadLatest": "loadLatestQuery"}[f.Name()]
					c.check(ok && fld == want && want != "", trimPkgDirs(shortName(f))+"/"+g.Name(), u.ipos(i), "statement = s."+fld, "a SQL statement other than the method's own query field reaches database/sql")
				}
				return
			}
			if g == nil || g.Pkg == nil || g.Pkg.Pkg.Path() != "database/sql" || g.Signature.Recv() == nil {
				return
			}
			recv := namedTypeName(g.Signature.Recv().Type())
			if recv != "DB" && recv != "Tx" && recv != "Conn" && recv != "Stmt" {
				return
			}
			cc := callOf(i)
			var q ssa.Value
			switch g.Name() {
			case "ExecContext", "QueryContext", "QueryRowContext", "PrepareContext":
				q = cc.Args[2]
			case "Exec", "Query", "QueryRow", "Prepare":
				q = cc.Args[1]
			default:
				return
			}
			nsql++
			c.CallSites++
			construct := trimPkgDirs(shortName(f)) + "/" + g.Name()
			_, fld, ok := fieldAccess(resolve(q))
			want := map[string]string{"Store": "storeKeyQuery", "Load": "loadKeyQuery", "LoadLatest": "loadLatestQuery"}[f.Name()]
			c.check(ok && fld == want && want != "", construct, u.ipos(i), "statement = s."+fld, "a SQL statement other than the method's own query field reaches database/sql")
		})
	}
	if nsql < 3 {
		c.bad("persistence/sql-calls", "", fmt.Sprintf("expected 3 database/sql call sites, found %d", nsql))
	}
	// MemoryMetastore.Envelopes writers
	for _, f := range u.RepoFuncs {
		allInstrs(f, func(i ssa.Instruction) {
			writes := false
			switch x := i.(type) {
			case *ssa.MapUpdate:
				ap := accessPath(x.Map)
				if strings.HasSuffix(ap, ".Envelopes") {
					writes = true
				}
				if lk, ok := resolve(x.Map).(*ssa.Lookup); ok && strings.HasSuffix(accessPath(lk.X), ".Envelopes") {
					writes = true
				}
			case *ssa.Store:
				if base, fld, ok := fieldAccess(x.Addr); ok && fld == "Envelopes" && typeIsNamed(base.Type(), pkgPersist, "MemoryMetastore") {
					writes = true
				}
			case ssa.CallInstruction:
				if b, ok := x.Common().Value.(*ssa.Builtin); ok && (b.Name() == "delete" || b.Name() == "clear") && len(x.Common().Args) > 0 {
					a := x.Common().Args[0]
					if strings.HasSuffix(accessPath(a), ".Envelopes") {
						writes = true
					}
					if lk, ok := resolve(a).(*ssa.Lookup); ok && strings.HasSuffix(accessPath(lk.X), ".Envelopes") {
						writes = true
					}
				}
			}
			if !writes {
				return
			}
			c.CallSites++
			root := rootFunc(f)
			allowed := (root.Name() == "Store" && root.Signature.Recv() != nil && namedTypeName(root.Signature.Recv().Type()) == "MemoryMetastore") || root.Name() == "NewMemoryMetastore"
			if b, ok := i.(ssa.CallInstruction); ok && allowed {
				if bi, isB := b.Common().Value.(*ssa.Builtin); isB && (bi.Name() == "delete" || bi.Name() == "clear") {
					allowed = false
				}
			}
			c.check(allowed, trimPkgDirs(shortName(f))+"/Envelopes-write", u.ipos(i), "Envelopes written only by Store / the constructor", "MemoryMetastore.Envelopes is modified outside Store/the constructor (or entries are deleted): stored records can change or disappear")
		})
	}
}

func ruleC13StoreResult(c *Ctx) {
	u := c.U1
	c.rule("C13.store-result", "every Store implementation returns true only where the backend write's error is known nil (memory: after the map write) and the constant false on every other return", 8)
	for _, m := range metastoreImpls(c) {
		store := u.MethodOf(m.N, "Store")
		if store == nil || store.Blocks == nil {
			continue
		}
		name := trimPkgDirs(shortName(store))
		// backend write instruction(s)
		var writes []ssa.Instruction
		allInstrs(store, func(i ssa.Instruction) {
			switch m.Kind {
			case "memory":
				if mu, ok := i.(*ssa.MapUpdate); ok && derivesFromEnvelopes(mu.Map, 0) {
					writes = append(writes, i)
				}
			case "sql":
				if staticIs(i, "(*database/sql.DB).ExecContext") {
					writes = append(writes, i)
				}
			default:
				if cc := callOf(i); cc != nil && cc.IsInvoke() && strings.HasPrefix(cc.Method.Name(), "PutItem") {
					writes = append(writes, i)
				}
			}
		})
		for _, r := range returnsOf(store) {
			construct := name + "/return"
			v := returnedValue(r, 0)
			k, isC := constOf(v)
			if !isC {
				c.undecided(construct, u.ipos(r), "the stored flag is not a constant at this return")
				continue
			}
			if k.ExactString() == "false" {
				c.ok(construct, u.ipos(r), "returns false")
				continue
			}
			good := false
			for _, w := range writes {
				if !instrDominates(w, r) {
					continue
				}
				if m.Kind == "memory" {
					good = true
					continue
				}
				for _, pr := range resultsOfType(w, isErrorType) {
					if pr[0] != nil && knownNil(pr[0], r.Block()) {
						good = true
					}
				}
			}
			// the error result must be nil as well
			if !isNilValue(returnedValue(r, 1)) {
				good = false
			}
			c.check(good, construct, u.ipos(r), "true only after the backend write succeeded (err known nil)", "Store reports success on a path where the backend write did not happen or its error is not known to be nil")
		}
		// and the successful insert is reported as true: a return reached with the write's error known nil (memory: after
		// the map write) and a nil error result must carry true
		for _, r := range returnsOf(store) {
			if !isNilValue(returnedValue(r, 1)) {
				continue
			}
			k, isC := constOf(returnedValue(r, 0))
			if !isC || k.ExactString() != "false" {
				continue
			}
			for _, w := range writes {
				if !instrDominates(w, r) {
					continue
				}
				succeeded := m.Kind == "memory"
				for _, pr := range resultsOfType(w, isErrorType) {
					if pr[0] != nil && knownNil(pr[0], r.Block()) {
						succeeded = true
					}
				}
				if succeeded {
					c.bad(name+"/success-reported", u.ipos(r), "Store returns (false, nil) after the backend write succeeded: the caller treats its own freshly stored key as a lost race, discards it and reloads")
				}
			}
		}
	}
}

func ruleC13ConsistentReads(c *Ctx) {
	u := c.U1
	c.rule("C13.consistent-reads", "every GetItemInput/QueryInput has ConsistentRead=true; LoadLatest queries are ScanIndexForward=false, Limit=1 with a key condition on the id; SQL read constants have the documented WHERE/ORDER BY shape; memory reads hold the lock", 7)
	for _, m := range metastoreImpls(c) {
		pkg := m.N.Obj().Pkg().Path()
		switch m.Kind {
		case "dynamo-v1", "dynamo-v2":
			for _, pref := range []string{"GetItem", "Query"} {
				reqs := clientRequests(u, pkg, pref)
				if len(reqs) == 0 {
					c.bad(trimPkgDirs(pkg)+"/"+pref, "", "no "+pref+" request found")
				}
				for _, r := range reqs {
					construct := trimPkgDirs(shortName(r.F)) + "/" + r.Meth
					c.CallSites++
					c.FuncsAnalysed[shortName(r.F)] = true
					if r.Input == nil {
						c.undecided(construct, u.ipos(r.Call), "request input is not a struct literal in this function")
						continue
					}
					fl := litFields(r.Input)
					var problems []string
					if k, ok := awsPtrConst(fl["ConsistentRead"]); !ok || k.ExactString() != "true" {
						problems = append(problems, "ConsistentRead is not aws.Bool(true) (eventually consistent reads can miss a completed Store)")
					}
					if pref == "Query" {
						if k, ok := awsPtrConst(fl["ScanIndexForward"]); !ok || k.ExactString() != "false" {
							problems = append(problems, "ScanIndexForward is not false (LoadLatest would return the oldest record)")
						}
						if k, ok := awsPtrConst(fl["Limit"]); !ok || k.ExactString() != "1" {
							problems = append(problems, "Limit is not 1")
						}
						if _, has := fl["KeyConditionExpression"]; !has {
							problems = append(problems, "no KeyConditionExpression")
						}
						// key condition: expression.Key(<"Id">).Equal(expression.Value(keyID))
						if !keyConditionOnID(r.F) {
							problems = append(problems, "key condition is not Key(\"Id\").Equal(Value(keyID))")
						}
					} else {
						keys := mapLitKeys(fl["Key"])
						if strings.Join(keys, ",") != "Created,Id" {
							problems = append(problems, fmt.Sprintf("GetItem Key attributes are %v, not [Created Id]", keys))
						}
					}
					c.check(len(problems) == 0, construct, u.ipos(r.Call), "strongly consistent, correctly keyed read", strings.Join(problems, "; "))
				}
			}
		case "sql":
			for fld, re := range map[string]*regexp.Regexp{
				"loadKeyQuery":    regexp.MustCompile(`(?i)^\s*SELECT\s+key_record\s+FROM\s+\S+\s+WHERE\s+id\s*=\s*\?\s+AND\s+created\s*=\s*\?\s*$`),
				"loadLatestQuery": regexp.MustCompile(`(?i)^\s*SELECT\s+key_record\s+FROM\s+\S+\s+WHERE\s+id\s*=\s*\?\s+ORDER\s+BY\s+created\s+DESC\s+LIMIT\s+1\s*$`),
			} {
				consts, other := sqlFieldConstants(u, fld)
				construct := "persistence.SQLMetastore/" + fld
				bad := ""
				if len(other) > 0 {
					bad = "non-constant statement: " + strings.Join(other, "; ")
				}
				if len(consts) == 0 {
					bad = "no constant statement"
				}
				for _, q := range consts {
					if !re.MatchString(q) {
						bad = fmt.Sprintf("statement %q does not select exactly the (id[, created]) row / the newest row for the id", q)
					}
				}
				c.check(bad == "", construct, "", fmt.Sprintf("%q", consts), bad)
			}
		case "memory":
			d := newLockDomain(u, pkgPersist, "MemoryMetastore", "RWMutex")
			for _, meth := range []string{"Load", "LoadLatest"} {
				f := u.MethodOf(m.N, meth)
				if f == nil {
					continue
				}
				c.FuncsAnalysed[shortName(f)] = true
				bad := ""
				n := 0
				allInstrs(f, func(i ssa.Instruction) {
					var mp ssa.Value
					switch x := i.(type) {
					case *ssa.Lookup:
						mp = x.X
					case *ssa.Range:
						mp = x.X
					default:
						return
					}
					if !types.Identical(mp.Type().Underlying(), mp.Type().Underlying()) {
						return
					}
					if _, isMap := mp.Type().Underlying().(*types.Map); !isMap {
						return
					}
					n++
					if st := d.stateAt(i); st == 0 || st&lsU != 0 {
						bad = u.ipos(i) + ": map read while the lock may be " + st.String()
					}
				})
				c.check(bad == "" && n > 0, trimPkgDirs(shortName(f))+"/locked-read", u.pos(f.Pos()), fmt.Sprintf("%d map reads, all with the lock held", n), "a map read without the metastore lock: "+bad)
			}
		}
	}
}

// keyConditionOnID: the function builds expression.Key(const "Id").Equal(expression.Value(<keyID param>)).
func keyConditionOnID(f *ssa.Function) bool {
	return keyConditionOnIDIn(f, 0)
}

func keyConditionOnIDIn(f *ssa.Function, depth int) bool {
	ok := false
	allInstrs(f, func(i ssa.Instruction) {
		g := staticCallee(i)
		// the expression may be built by a helper of the package that receives the id
		if g != nil && g.Pkg == f.Pkg && g.Blocks != nil && depth < 2 && g != f {
			if cc := callOf(i); cc != nil {
				for _, a := range cc.Args {
					if p, isP := strip(a).(*ssa.Parameter); isP && p.Name() == "keyID" && keyConditionOnIDIn(g, depth+1) {
						ok = true
					}
				}
			}
		}
		if g == nil || g.Name() != "Equal" || g.Pkg == nil || !strings.HasSuffix(g.Pkg.Pkg.Path(), "/expression") {
			return
		}
		cc := callOf(i)
		kb, isK := resolve(cc.Args[0]).(*ssa.Call)
		if !isK {
			return
		}
		kf := staticCallee(kb)
		if kf == nil || kf.Name() != "Key" {
			return
		}
		k, isC := constOf(kb.Call.Args[0])
		if !isC || k.Kind() != constant.String || constant.StringVal(k) != "Id" {
			return
		}
		// operand: expression.Value(keyID)
		for _, a := range cc.Args[1:] {
			vals := []ssa.Value{a}
			if vv := varargValues(a); len(vv) > 0 {
				vals = vv
			}
			for _, v := range vals {
				if vc, isV := resolve(v).(*ssa.Call); isV {
					if vf := staticCallee(vc); vf != nil && vf.Name() == "Value" {
						if mi, isMI := vc.Call.Args[0].(*ssa.MakeInterface); isMI {
							if p, isP := strip(mi.X).(*ssa.Parameter); isP && p.Name() == "keyID" {
								ok = true
							}
						}
					}
				}
			}
		}
	})
	return ok
}

func ruleC13FieldFidelity(c *Ctx) {
	u := c.U1
	c.rule("C13.field-fidelity", "the DynamoDB wire structs and the struct-to-struct conversions in Store/decodeItem carry Revoked, Created, Key(base64), ParentKeyMeta{KeyId, Created} each from its namesake; SQL stores json.Marshal(envelope) and reads back into *EnvelopeKeyRecord", 5)
	// v1: Store builds DynamoDBEnvelope from `envelope`
	checkLit := func(fn *ssa.Function, typName string, src string, want map[string]string) {
		if fn == nil {
			c.unresolved(typName, "conversion function")
			return
		}
		c.FuncsAnalysed[shortName(fn)] = true
		var lit *ssa.Alloc
		var sub *factSub
		allInstrs(fn, func(i ssa.Instruction) {
			if a, ok := i.(*ssa.Alloc); ok && namedTypeName(a.Type()) == typName && a.Comment == "complit" {
				lit = a
			}
		})
		if lit == nil {
			// built by a constructor helper called from here
			allInstrs(fn, func(i ssa.Instruction) {
				if cv, ok := i.(*ssa.Call); ok && lit == nil {
					if a, sb := litOf(cv); a != nil && sb != nil && namedTypeName(a.Type()) == typName {
						lit, sub = a, sb
					}
				}
			})
		}
		construct := trimPkgDirs(shortName(fn)) + "/" + typName
		if lit == nil {
			c.bad(construct, u.pos(fn.Pos()), "no "+typName+" literal built here (nor in a constructor called from here)")
			return
		}
		fl := litFields(lit)
		var problems []string
		for field, from := range want {
			v, ok := fl[field]
			if !ok {
				problems = append(problems, field+" not set")
				continue
			}
			got := localNameRe.ReplaceAllString(fieldProvenanceSub(v, sub), "L")
			if !strings.HasSuffix(got, from) {
				problems = append(problems, fmt.Sprintf("%s comes from %s, expected …%s", field, got, from))
			}
		}
		// optional nested records (ParentKeyMeta): a `nil or converted literal` choice must follow the source pointer —
		// converted exactly where the source is known non-nil, nil only where it is known nil
		for field := range want {
			phi, isPhi := resolve(fl[field]).(*ssa.Phi)
			if !isPhi || sub != nil {
				continue
			}
			for k, e := range phi.Edges {
				pr := phi.Block().Preds[k]
				facts := append(append([]Fact{}, factsAt(pr)...), edgeFacts(pr, phi.Block())...)
				if len(pr.Preds) == 1 && len(pr.Instrs) <= 1 {
					facts = append(facts, edgeFacts(pr.Preds[0], pr)...)
				}
				srcNil, srcNonNil := false, false
				for _, fct := range facts {
					if x, isNil, ok := nilTest(fct); ok && fct.Sub == nil && strings.HasSuffix(trimAddr(accessPath(x)), "."+field) {
						if isNil {
							srcNil = true
						} else {
							srcNonNil = true
						}
					}
				}
				switch {
				case isNilConst(strip(e)) && srcNonNil:
					problems = append(problems, field+" is dropped (nil) on the path where the source "+field+" is non-nil")
				case !isNilConst(strip(e)) && srcNil:
					problems = append(problems, field+" is converted on the path where the source "+field+" is nil (nil dereference), and dropped where it is present")
				}
			}
		}
		_ = src
		c.check(len(problems) == 0, construct, u.ipos(lit), fmt.Sprintf("fields %v", sortedKeys(want)), strings.Join(problems, "; "))
	}
	if n := u.Named(pkgDynV1, "DynamoDBMetastore"); n != nil {
		checkLit(u.MethodOf(n, "Store"), "DynamoDBEnvelope", "envelope", map[string]string{
			"Revoked": "P:envelope.Revoked", "Created": "P:envelope.Created", "EncryptedKey": "base64enc(P:envelope.EncryptedKey)", "ParentKeyMeta": "P:envelope.ParentKeyMeta"})
	} else {
		c.unresolved("dynamo-v1", "DynamoDBMetastore")
	}
	if n := u.Named(pkgDynV2, "Metastore"); n != nil {
		st := u.MethodOf(n, "Store")
		checkLit(st, "envelope", "ekr", map[string]string{
			"Revoked": "P:ekr.Revoked", "Created": "P:ekr.Created", "EncryptedKey": "base64enc(P:ekr.EncryptedKey)", "ParentKeyMeta": "keyMeta{P:ekr.ParentKeyMeta.ID,P:ekr.ParentKeyMeta.Created}"})
		checkLit(u.Func(pkgDynV2, "decodeItem"), "EnvelopeKeyRecord", "item", map[string]string{
			"ID": "L.ID", "Revoked": "L.KeyRecord.Revoked", "Created": "L.KeyRecord.Created", "EncryptedKey": "base64dec(L.KeyRecord.EncryptedKey)", "ParentKeyMeta": "KeyMeta{L.KeyRecord.ParentKeyMeta.ID,L.KeyRecord.ParentKeyMeta.Created}"})
	} else {
		c.unresolved("dynamo-v2", "Metastore")
	}
	// SQL: json.Marshal(envelope) is the third argument; parseEnvelope unmarshals into *EnvelopeKeyRecord
	if n := u.Named(pkgPersist, "SQLMetastore"); n != nil {
		st := u.MethodOf(n, "Store")
		good := false
		allInstrs(st, func(i ssa.Instruction) {
			if staticIs(i, "(*database/sql.DB).ExecContext") {
				args := varargValues(callOf(i).Args[3])
				if len(args) == 3 {
					// third: string(bytes) where bytes = json.Marshal(envelope)
					v := resolve(args[2])
					if mi, ok := args[2].(*ssa.MakeInterface); ok {
						v = resolve(mi.X)
					}
					if cv, ok := v.(*ssa.Convert); ok {
						if ex, ok := resolve(cv.X).(*ssa.Extract); ok {
							if call, ok := ex.Tuple.(*ssa.Call); ok && staticIs(call, "encoding/json.Marshal") {
								if mi2, ok := call.Call.Args[0].(*ssa.MakeInterface); ok && isParamNamed(mi2.X, st, 4) {
									good = true
								}
							}
						}
					}
				}
			}
		})
		c.check(good, "persistence.SQLMetastore.Store/row", u.pos(st.Pos()), "key_record = string(json.Marshal(envelope))", "the stored key_record is not the JSON of the envelope passed to Store")
		_ = u.Func(pkgPersist, "parseEnvelope")
		good = false
		for _, pf := range u.RepoFuncs {
			if pf.Pkg == nil || pf.Pkg.Pkg.Path() != pkgPersist || pf.Blocks == nil {
				continue
			}
			allInstrs(pf, func(i ssa.Instruction) {
				if staticIs(i, "encoding/json.Unmarshal") {
					if mi, ok := callOf(i).Args[1].(*ssa.MakeInterface); ok {
						if p, ok := mi.X.Type().(*types.Pointer); ok {
							if p2, ok := p.Elem().(*types.Pointer); ok && typeIsNamed(p2.Elem(), pkgApp, "EnvelopeKeyRecord") {
								good = true
							}
							if typeIsNamed(p.Elem(), pkgApp, "EnvelopeKeyRecord") {
								good = true
							}
						}
					}
				}
			})
		}
		c.check(good, "persistence.parseEnvelope/row", "", "json.Unmarshal into *EnvelopeKeyRecord", "rows are no longer decoded into appencryption.EnvelopeKeyRecord")
	}
}

var localNameRe = regexp.MustCompile(`&?A:t\d+`)

func sortedKeys(m map[string]string) []string {
	var out []string
	for k := range m {
		out = append(out, k)
	}
	sort.Strings(out)
	return out
}

// fieldProvenance describes where a field value comes from: an access path, base64enc(path)/base64dec(path), or a
// nested literal T{a,b} (phi of nil and a literal is rendered as the literal).
func fieldProvenance(v ssa.Value) string { return fieldProvenanceSub(v, nil) }

// composeSub: paths of an inner frame are first mapped by inner (callee params → this frame), then by outer.
func composeSub(inner, outer *factSub) *factSub {
	if outer == nil {
		return inner
	}
	if inner == nil {
		return outer
	}
	out := &factSub{}
	for _, p := range inner.pairs {
		out.pairs = append(out.pairs, [2]string{p[0], trimAddr(outer.apply(p[1]))})
	}
	return out
}

// fieldProvenanceSub: sub translates access paths of v's frame into the frame the expectation is written in.
func fieldProvenanceSub(v ssa.Value, sub *factSub) string {
	v = resolve(v)
	ap := func(x ssa.Value) string { return trimAddr(sub.apply(accessPath(x))) }
	switch x := v.(type) {
	case *ssa.Phi:
		for _, e := range x.Edges {
			if !isNilConst(strip(e)) {
				return fieldProvenanceSub(e, sub)
			}
		}
	case *ssa.Alloc:
		fl := litFields(x)
		var parts []string
		st, _ := x.Type().Underlying().(*types.Pointer).Elem().Underlying().(*types.Struct)
		for k := 0; st != nil && k < st.NumFields(); k++ {
			if fv, ok := fl[st.Field(k).Name()]; ok {
				parts = append(parts, fieldProvenanceSub(fv, sub))
			} else {
				parts = append(parts, "<unset>")
			}
		}
		return namedTypeName(x.Type()) + "{" + strings.Join(parts, ",") + "}"
	case *ssa.Call:
		if staticIs(x, "(*encoding/base64.Encoding).EncodeToString") && isStdEncoding(x.Call.Args[0]) {
			return "base64enc(" + ap(x.Call.Args[1]) + ")"
		}
		// a conversion helper that returns nil or one literal built from its parameters
		if lit, sb := litOf(x); lit != nil && sb != nil {
			return fieldProvenanceSub(lit, composeSub(sb, sub))
		}
	case *ssa.Convert:
		// string(buf) where buf was filled by StdEncoding.Encode(buf, src)
		if src := base64BufferSource(x.X, "Encode"); src != nil {
			return "base64enc(" + ap(src) + ")"
		}
	case *ssa.Slice:
		// buf[:n] where n, err := StdEncoding.Decode(buf, []byte(src))
		if src := base64BufferSource(x.X, "Decode"); src != nil && x.Low == nil && x.High != nil {
			if ex, ok := resolve(x.High).(*ssa.Extract); ok && ex.Index == 0 {
				if call, ok := ex.Tuple.(*ssa.Call); ok && staticIs(call, "(*encoding/base64.Encoding).Decode") {
					if cv, ok := resolve(src).(*ssa.Convert); ok {
						src = cv.X
					}
					return "base64dec(" + ap(src) + ")"
				}
			}
		}
	case *ssa.Extract:
		if call, ok := x.Tuple.(*ssa.Call); ok && staticIs(call, "(*encoding/base64.Encoding).DecodeString") && isStdEncoding(call.Call.Args[0]) && x.Index == 0 {
			return "base64dec(" + ap(call.Call.Args[1]) + ")"
		}
		// a decoding helper of the package with (value, error) results and one non-nil value result: the value's
		// provenance, read in the helper's frame
		if call, ok := x.Tuple.(*ssa.Call); ok && x.Index == 0 && provenanceDepth < 2 {
			if h := staticCallee(call); h != nil && h.Blocks != nil && h.Pkg != nil && strings.HasPrefix(h.Pkg.Pkg.Path(), modApp) {
				var val ssa.Value
				cnt := 0
				for _, r := range returnsOf(h) {
					if len(r.Results) == 0 {
						continue
					}
					if rv := returnedValue(r, 0); !isNilValue(rv) {
						cnt++
						val = rv
					}
				}
				if cnt == 1 {
					provenanceDepth++
					defer func() { provenanceDepth-- }()
					return fieldProvenanceSub(val, composeSub(callSub(h, &call.Call), sub))
				}
			}
		}
	}
	return ap(v)
}

var provenanceDepth int

func isStdEncoding(v ssa.Value) bool {
	ld, ok := resolve(v).(*ssa.UnOp)
	if !ok || ld.Op != token.MUL {
		return false
	}
	g, ok := ld.X.(*ssa.Global)
	return ok && g.Pkg.Pkg.Path() == "encoding/base64" && g.Name() == "StdEncoding"
}

// base64BufferSource: buf is a locally made byte slice passed as destination to StdEncoding.<meth>(buf, src); returns src.
func base64BufferSource(buf ssa.Value, meth string) ssa.Value {
	buf = resolve(buf)
	if _, ok := buf.(*ssa.MakeSlice); !ok {
		return nil
	}
	refs := buf.Referrers()
	if refs == nil {
		return nil
	}
	for _, r := range *refs {
		if call, ok := r.(*ssa.Call); ok && staticIs(call, "(*encoding/base64.Encoding)."+meth) && isStdEncoding(call.Call.Args[0]) && call.Call.Args[1] == buf {
			return call.Call.Args[2]
		}
	}
	return nil
}

// derivesFromEnvelopes: v is the nested per-id map of MemoryMetastore.Envelopes: a lookup in Envelopes, a map just made
// and stored into Envelopes, or a phi of those.
func derivesFromEnvelopes(v ssa.Value, depth int) bool {
	if depth > 6 {
		return false
	}
	if _, _, ok := subMapFromHelper(v); ok {
		return true
	}
	v = resolve(v)
	switch x := v.(type) {
	case *ssa.Lookup:
		return strings.HasSuffix(accessPath(x.X), ".Envelopes")
	case *ssa.Extract:
		if lk, ok := x.Tuple.(*ssa.Lookup); ok && x.Index == 0 {
			return strings.HasSuffix(accessPath(lk.X), ".Envelopes")
		}
	case *ssa.MakeMap:
		for _, r := range *x.Referrers() {
			if mu, ok := r.(*ssa.MapUpdate); ok && mu.Value == ssa.Value(x) && strings.HasSuffix(accessPath(mu.Map), ".Envelopes") {
				return true
			}
		}
	case *ssa.Phi:
		for _, e := range x.Edges {
			if !derivesFromEnvelopes(e, depth+1) {
				return false
			}
		}
		return len(x.Edges) > 0
	}
	return false
}

// helperBuiltInput: the request input is the (only) struct literal a same-package helper returns, directly or as the
// first result of a (input, error) pair.
func helperBuiltInput(v ssa.Value, f *ssa.Function) *ssa.Alloc {
	v = resolve(v)
	idx := 0
	if ex, ok := v.(*ssa.Extract); ok {
		idx = ex.Index
		v = ex.Tuple
	}
	cv, ok := v.(*ssa.Call)
	if !ok {
		return nil
	}
	h := staticCallee(cv)
	if h == nil || h.Blocks == nil || h.Pkg != f.Pkg {
		return nil
	}
	var found *ssa.Alloc
	for _, r := range returnsOf(h) {
		if idx >= len(r.Results) {
			return nil
		}
		rv := returnedValue(r, idx)
		if isNilValue(rv) {
			continue
		}
		a := allocOf(rv)
		if a == nil || (found != nil && found != a) {
			return nil
		}
		found = a
	}
	return found
}
