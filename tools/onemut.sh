#!/bin/bash
# onemut.sh <mutant-id> [props…]  — evaluate one sweep mutant (from ${MSWEEP:-/tmp/msweep}/m) with the given checks (default all), in memory.
id=$1; shift
f=$(python3 -c "import json;print([m['file'] for m in json.load(open('${MSWEEP:-/tmp/msweep}/report.json')) if m['id']=='$id'][0])")
mkdir -p /tmp/vr_one; cp /verif/known_findings.txt /verif/properties.jsonl /tmp/vr_one/
if [ $# -eq 0 ]; then set -- all; fi
for p in "$@"; do
  if [ "$p" = all ]; then VERIF_ROOT=/tmp/vr_one VERIF_OVERLAY="$f=${MSWEEP:-/tmp/msweep}/m/$id.go.txt" ${VERIF_BIN:-/verif/bin/asherah-verif} all 2>&1 | grep -v "^ok\|^PASS" | head -40
  else VERIF_ROOT=/tmp/vr_one VERIF_OVERLAY="$f=${MSWEEP:-/tmp/msweep}/m/$id.go.txt" ${VERIF_BIN:-/verif/bin/asherah-verif} check $p 2>&1 | tail -15; fi
done
