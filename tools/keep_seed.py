#!/usr/bin/env python3
# usage: keep_seed.py <src dir (patch.diff, demo/, README.md)> <seed id e.g. C13a> <property id>
# Confirms the seed (tools/confirm_seed.sh), runs every check against it in the scratch worktree, and stores it under
# /verif/seeded/<seed id>/ (patch.diff, demo/, README.md, meta.json).
import sys,os,subprocess,json,shutil,re,datetime
src,sid,prop=sys.argv[1:4]
r=subprocess.run(['/verif/tools/confirm_seed.sh',src],capture_output=True,text=True,errors='replace')
print(r.stdout[-1500:])
if 'CONFIRMED' not in r.stdout.splitlines()[-1:]:
    print('not kept'); sys.exit(1)
t=subprocess.run(['/verif/tools/tryseed.sh',src,'all'],capture_output=True,text=True,errors='replace')
viol=[l for l in t.stdout.splitlines() if re.match(r'^\S*: \[',l)]
rules=sorted(set(re.findall(r'\] (C\d+\.[a-z0-9-]+)',' '.join(viol))))
dst=f'/verif/seeded/{sid}'
shutil.rmtree(dst,ignore_errors=True); os.makedirs(dst)
shutil.copy(f'{src}/patch.diff',dst); shutil.copytree(f'{src}/demo',f'{dst}/demo')
readme=open(f'{src}/README.md').read() if os.path.exists(f'{src}/README.md') else ''
open(f'{dst}/README.md','w').write(readme)
meta={'seed':sid,'property':prop,'source':'independent sub-agent given only the property text and a scratch worktree',
 'needs_to_manifest':'see README.md (written by the sub-agent)',
 'confirmed_by':'tools/confirm_seed.sh in scratch worktree /tmp/wt_confirm: demo passes on the unchanged tree, fails with patch.diff applied; module builds and its existing tests pass with the change',
 'confirmed_at':datetime.datetime.utcnow().isoformat()+'Z','repo_head':subprocess.run(['git','-C','/repo','rev-parse','HEAD'],capture_output=True,text=True,errors='replace').stdout.strip(),
 'checks_run':'tools/tryseed.sh <seed> all  (every registered check against the patched scratch worktree)',
 'detected':bool(viol),'detected_by_rules':rules,'violation_lines':[v[:400] for v in viol]}
json.dump(meta,open(f'{dst}/meta.json','w'),indent=1)
print(sid,'kept; detected' if viol else 'kept; MISSED',rules)
