#!/usr/bin/env python3
"""Systematic mutation sweep (validation of the checker, not a registered check).

1. `asherah-verif gen-mutants` writes first-order mutants of the anchored source files (delete defer/call, negate
   condition, flip comparison, drop && / || operand, true<->false, Lock<->RLock, delete ++/--).
2. Every mutant is evaluated IN MEMORY by all 20 checks (`VERIF_OVERLAY`, nothing written to /repo): killed / survived /
   invalid (does not type-check).
3. Every survivor is written into a scratch worktree and the module's own tests are run: survivors that also pass the
   tests are the interesting ones (realistic breakage nobody notices) and are listed for triage.

usage: mutation_sweep.py [--workers N] [--limit N] [--out DIR]
"""
import json, os, subprocess, sys, shutil, re, concurrent.futures as cf, argparse, time

ap = argparse.ArgumentParser()
ap.add_argument('--workers', type=int, default=14)
ap.add_argument('--limit', type=int, default=0)
ap.add_argument('--out', default='/tmp/msweep')
ap.add_argument('--skip-tests', action='store_true')
args = ap.parse_args()
OUT = args.out
BIN = os.environ.get('VERIF_BIN', '/verif/bin/asherah-verif')
os.makedirs(OUT, exist_ok=True)
subprocess.run([BIN, 'gen-mutants', f'{OUT}/m'], check=True, stdout=subprocess.DEVNULL)
muts = json.load(open(f'{OUT}/m/mutants.json'))
if args.limit:
    muts = muts[:: max(1, len(muts) // args.limit)]
print(len(muts), 'mutants')

def roots(n):
    for k in range(n):
        r = f'{OUT}/root{k}'
        os.makedirs(r, exist_ok=True)
        shutil.copy('/verif/known_findings.txt', r)
        shutil.copy('/verif/properties.jsonl', r)

roots(args.workers)

def check(job):
    k, m = job
    env = dict(os.environ, VERIF_ROOT=f'{OUT}/root{k % args.workers}', VERIF_OVERLAY=f"{m['file']}={m['content_file']}")
    p = subprocess.run([BIN, 'all'], env=env, capture_output=True, text=True, timeout=600)
    out = p.stdout
    if 'type-check/load errors' in out or 'packages.Load' in out:
        return m['id'], 'invalid', []
    rules = sorted(set(re.findall(r'\] (C\d+\.[a-z0-9-]+)', out)))
    props = sorted(set(re.findall(r'VIOLATION property=(C\d+)', out)))
    if 'SELFTEST FAILED' in out or ('panic:' in out or 'goroutine ' in out) and not props:
        return m['id'], 'error', [out[-300:]]
    return m['id'], ('killed' if props else 'survived'), rules

t0 = time.time()
res = {}
# separate VERIF_ROOT per concurrent worker: use a thread pool where each thread has its own index
import threading, queue
q = queue.Queue()
for j in enumerate(muts):
    q.put(j)
lock = threading.Lock()
def worker(widx):
    while True:
        try:
            k, m = q.get_nowait()
        except queue.Empty:
            return
        try:
            r = check((widx, m))
        except Exception as e:
            r = (m['id'], 'error', [str(e)])
        with lock:
            res[r[0]] = r
            if len(res) % 100 == 0:
                print(f'  checked {len(res)}/{len(muts)} in {time.time()-t0:.0f}s', flush=True)
threads = [threading.Thread(target=worker, args=(w,)) for w in range(args.workers)]
[t.start() for t in threads]
[t.join() for t in threads]
by = {}
for m in muts:
    m['status'], m['rules'] = res[m['id']][1], res[m['id']][2]
    by[m['status']] = by.get(m['status'], 0) + 1
print('check phase:', by, f'{time.time()-t0:.0f}s')

# phase 2: tests on survivors
surv = [m for m in muts if m['status'] == 'survived']
if not args.skip_tests:
    NW = min(8, args.workers)
    head = subprocess.run(['git', '-C', '/repo', 'rev-parse', 'HEAD'], capture_output=True, text=True).stdout.strip()
    for k in range(NW):
        wt = f'{OUT}/wt{k}'
        if not os.path.isdir(wt):
            subprocess.run(['git', '-C', '/repo', 'worktree', 'add', '-f', wt, head, '-q'], check=False, capture_output=True)
    def modof(f):
        for mod, flags in (('go/appencryption', {'GOFLAGS': ''}), ('go/securememory', {'GOWORK': 'off', 'GOFLAGS': '-mod=mod'}), ('server/go', {'GOWORK': 'off', 'GOFLAGS': '-mod=mod'})):
            if f.startswith(mod + '/'):
                return mod, flags
    q2 = queue.Queue()
    for m in surv:
        q2.put(m)
    done = [0]
    def tworker(k):
        wt = f'{OUT}/wt{k}'
        while True:
            try:
                m = q2.get_nowait()
            except queue.Empty:
                return
            subprocess.run(['git', '-C', wt, 'checkout', '-q', '--', '.'])
            shutil.copy(m['content_file'], f"{wt}/{m['file']}")
            mod, flags = modof(m['file'])
            env = dict(os.environ, GOPROXY='off', GOSUMDB='off', GOTOOLCHAIN='local', **flags)
            try:
                p = subprocess.run(['go', 'test', '-count=1', '-timeout', '240s', '-skip', 'MemLockLimit|TriggerFinalizer', './...'], cwd=f'{wt}/{mod}', env=env, capture_output=True, text=True, timeout=400)
                fails = re.findall(r'^--- FAIL: (\S+)', p.stdout, re.M)
                m['tests'] = 'pass' if p.returncode == 0 else ('fail' if fails or 'FAIL' in p.stdout else 'builderr')
                m['failing_tests'] = fails[:5]
            except subprocess.TimeoutExpired:
                m['tests'] = 'timeout'
            subprocess.run(['git', '-C', wt, 'checkout', '-q', '--', '.'])
            with lock:
                done[0] += 1
                if done[0] % 50 == 0:
                    print(f'  tested {done[0]}/{len(surv)}', flush=True)
    ts = [threading.Thread(target=tworker, args=(k,)) for k in range(NW)]
    [t.start() for t in ts]
    [t.join() for t in ts]
    for k in range(NW):
        subprocess.run(['git', '-C', '/repo', 'worktree', 'remove', '--force', f'{OUT}/wt{k}'], capture_output=True)
    tb = {}
    for m in surv:
        tb[m.get('tests')] = tb.get(m.get('tests'), 0) + 1
    print('test phase on survivors:', tb)
for m in muts:
    m.pop('content_file', None)
json.dump(muts, open(f'{OUT}/report.json', 'w'), indent=1)
interesting = [m for m in surv if m.get('tests') == 'pass']
print(len(interesting), 'mutants survive both the checks and the existing tests (triage list):')
for m in interesting:
    print(f"  {m['id']:40s} {m['file']}:{m['line']} {m['func']:40s} {m['operator']:18s} {m['orig'][:50]!r} -> {m['new'][:40]!r}")
