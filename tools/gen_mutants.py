#!/usr/bin/env python3
"""Generates /verif/mutants/<prop>/<name>.diff from the table below (textual edits of /repo's current files rendered
as unified diffs; /repo is not modified). Names starting with equiv- are behaviour-preserving variants on which the
checks must stay silent. The thorough tier applies each diff in memory (packages.Config.Overlay).
Run after /repo changes; an anchor that no longer matches is reported and that mutant is skipped (n/a)."""
import difflib, os, sys, shutil

REPO = '/repo'
OUT = '/verif/mutants'
A = 'go/appencryption/'
M = [
 # ---------------- C01
 ('C01','parent-created-from-drk',A+'envelope.go','\t\t\t\tCreated: ik.Created(),\n\t\t\t\tID:      e.partition.IntermediateKeyID(),','\t\t\t\tCreated: drk.Created(),\n\t\t\t\tID:      e.partition.IntermediateKeyID(),'),
 ('C01','open-into-input',A+'pkg/crypto/aead/aead.go','aeadCipher.Open(nil, data[noncePos:], data[:noncePos], nil)','aeadCipher.Open(data[:0], data[noncePos:], data[:noncePos], nil)'),
 ('C01','cache-key-without-created',A+'key_cache.go','\tid := cacheKey(meta.ID, meta.Created)\n\n\tif meta.IsLatest() {','\tid := cacheKey(meta.ID, 0)\n\n\tif meta.IsLatest() {'),
 ('C01','wipe-callers-record',A+'envelope.go','\t\tdefer internal.MemClr(rawDrk)\n','\t\tdefer internal.MemClr(rawDrk)\n\t\tdefer internal.MemClr(drr.Key.EncryptedKey)\n'),
 ('C01','validity-gate-on-read',A+'envelope.go','\tsk, err := e.getOrLoadSystemKey(ctx, *ekr.ParentKeyMeta)\n\tif err != nil {\n\t\treturn nil, err\n\t}\n\n\tdefer sk.Close()\n\n\treturn e.intermediateKeyFromEKR(sk, ekr)','\tsk, err := e.getOrLoadSystemKey(ctx, *ekr.ParentKeyMeta)\n\tif err != nil {\n\t\treturn nil, err\n\t}\n\n\tdefer sk.Close()\n\n\tif e.isEnvelopeInvalid(ekr) {\n\t\treturn nil, errors.New("intermediate key is no longer valid")\n\t}\n\n\treturn e.intermediateKeyFromEKR(sk, ekr)'),
 ('C01','equiv-rename-locals',A+'envelope.go','\tencData, err := internal.WithKeyFunc(drk, func(bytes []byte) ([]byte, error) {\n\t\treturn e.Crypto.Encrypt(data, bytes)\n\t})','\tencData, err := internal.WithKeyFunc(drk, func(drkMaterial []byte) ([]byte, error) {\n\t\treturn e.Crypto.Encrypt(data, drkMaterial)\n\t})'),
 # ---------------- C02
 ('C02','success-or-no-error',A+'envelope.go','\tswitch success, err2 := e.tryStoreIntermediateKey(ctx, ik, sk); {\n\tcase success:','\tswitch success, err2 := e.tryStoreIntermediateKey(ctx, ik, sk); {\n\tcase success || err2 == nil:'),
 ('C02','trystore-returns-err-nil',A+'envelope.go','\t_ = err // err is intentionally ignored\n\n\treturn success','\t_ = success\n\n\treturn err == nil'),
 ('C02','record-created-from-now',A+'envelope.go','\t\tID:           e.partition.SystemKeyID(),\n\t\tCreated:      sk.Created(),','\t\tID:           e.partition.SystemKeyID(),\n\t\tCreated:      time.Now().Unix(),'),
 ('C02','swallow-kms-error',A+'envelope.go','\tbytes, err := e.KMS.DecryptKey(ctx, ekr.EncryptedKey)\n\tif err != nil {\n\t\treturn nil, err\n\t}','\tbytes, err := e.KMS.DecryptKey(ctx, ekr.EncryptedKey)\n\tif err != nil {\n\t\treturn nil, nil\n\t}'),
 ('C02','equiv-if-instead-of-switch',A+'envelope.go','\tswitch success, err2 := e.tryStoreSystemKey(ctx, sk); {\n\tcase success:\n\t\t// New key saved successfully, return it.\n\t\treturn sk, nil\n\tdefault:\n\t\t// it\'s no good to us now. throw it away\n\t\tsk.Close()\n\n\t\tif err2 != nil {\n\t\t\treturn nil, err2\n\t\t}\n\t}','\tstored, storeErr := e.tryStoreSystemKey(ctx, sk)\n\tif stored {\n\t\t// New key saved successfully, return it.\n\t\treturn sk, nil\n\t}\n\n\t// it\'s no good to us now. throw it away\n\tsk.Close()\n\n\tif storeErr != nil {\n\t\treturn nil, storeErr\n\t}'),
 # ---------------- C03
 ('C03','log-unwrapped-drk',A+'envelope.go','\t\trawDrk, err := crypto.Decrypt(drr.Key.EncryptedKey, bytes)\n\t\tif err != nil {\n\t\t\treturn nil, err\n\t\t}\n','\t\trawDrk, err := crypto.Decrypt(drr.Key.EncryptedKey, bytes)\n\t\tif err != nil {\n\t\t\treturn nil, err\n\t\t}\n\n\t\tlog.Debugf("decrypted drk %x", rawDrk)\n'),
 ('C03','wrap-ik-under-drk',A+'envelope.go','\t\t\treturn e.Crypto.Encrypt(drkBytes, bytes)','\t\t\treturn e.Crypto.Encrypt(bytes, drkBytes)'),
 ('C03','static-kms-error-with-key',A+'pkg/kms/static.go','\tdst, err := internal.WithKeyFunc(s.key, func(keyBytes []byte) ([]byte, error) {\n\t\treturn s.Crypto.Encrypt(bytes, keyBytes)\n\t})\n\tif err != nil {\n\t\treturn nil, err\n\t}','\tdst, err := internal.WithKeyFunc(s.key, func(keyBytes []byte) ([]byte, error) {\n\t\tout, err := s.Crypto.Encrypt(bytes, keyBytes)\n\t\tif err != nil {\n\t\t\treturn nil, fmt.Errorf("encrypt under %v failed: %w", keyBytes, err)\n\t\t}\n\n\t\treturn out, nil\n\t})\n\tif err != nil {\n\t\treturn nil, err\n\t}'),
 ('C03','skip-nonce-randomisation',A+'pkg/crypto/aead/aead.go','\tinternal.FillRandom(cipherAndNonce[noncePos:])\n','\tif len(data) > 0 {\n\t\tinternal.FillRandom(cipherAndNonce[noncePos:])\n\t}\n'),
 ('C03','reader-error-ignored',A+'internal/bytes.go','\tif _, err := r(buf); err != nil {\n\t\tpanic(err)\n\t}','\tif _, err := r(buf); err != nil {\n\t\treturn\n\t}'),
 # ---------------- C04
 ('C04','skip-isinvalid-block',A+'key_cache.go','\tif c.IsInvalid(key.CryptoKey) {\n\t\treloaded, err := loader(meta)','\tif key.Revoked() {\n\t\treloaded, err := loader(meta)'),
 ('C04','envelope-invalid-drops-expiry',A+'envelope.go','\treturn e == nil || internal.IsKeyExpired(ekr.Created, e.Policy.ExpireKeyAfter) || ekr.Revoked','\treturn e == nil || ekr.Revoked'),
 ('C04','raw-now-stamp',A+'envelope.go','\tcreatedAt := newKeyTimestamp(e.Policy.CreateDatePrecision)','\tcreatedAt := time.Now().Unix()'),
 ('C04','iskeyinvalid-drops-revoked',A+'internal/key.go','\treturn key.Revoked() || IsKeyExpired(key.Created(), expireAfter)','\treturn IsKeyExpired(key.Created(), expireAfter)'),
 # ---------------- C05
 ('C05','merge-without-created',A+'key_cache.go','\tcase ok && e.key.Created() == k.Created():','\tcase ok:'),
 ('C05','no-setrevoked',A+'key_cache.go','\t\te.key.SetRevoked(k.Revoked())\n\t\te.loadedAt = time.Now()','\t\te.loadedAt = time.Now()'),
 ('C05','no-loadedat-reset',A+'key_cache.go','\t\te.key.SetRevoked(k.Revoked())\n\t\te.loadedAt = time.Now()','\t\te.key.SetRevoked(k.Revoked())'),
 ('C05','fresh-without-interval-check',A+'key_cache.go','\tif e, ok := c.read(meta); ok && !isReloadRequired(e, c.policy.RevokeCheckInterval) {','\tif e, ok := c.read(meta); ok {'),
 ('C05','never-reload',A+'key_cache.go','\treturn entry.loadedAt.Add(checkInterval).Before(time.Now())','\treturn false'),
 # ---------------- C06
 ('C06','drop-partition-check',A+'envelope.go','\tif !e.partition.IsValidIntermediateKeyID(drr.Key.ParentKeyMeta.ID) {\n\t\treturn nil, errors.New("unable to decrypt record")\n\t}\n',''),
 ('C06','default-partition-prefix',A+'partition.go','\treturn id == p.IntermediateKeyID()\n}','\treturn strings.HasPrefix(id, p.IntermediateKeyID())\n}'),
 ('C06','allow-empty-id',A+'session.go','\tif id == "" {\n\t\treturn nil, errors.New("partition id cannot be empty")\n\t}\n',''),
 ('C06','id-format-reordered',A+'partition.go','\treturn fmt.Sprintf("_IK_%s_%s_%s", p.id, p.service, p.product)','\treturn fmt.Sprintf("_IK_%s_%s_%s", p.service, p.product, p.id)'),
 ('C06','equiv-len-check',A+'session.go','\tif id == "" {','\tif len(id) == 0 {'),
 # ---------------- C07
 ('C07','drop-parent-meta-check',A+'envelope.go','\tif drr.Key.ParentKeyMeta == nil {\n\t\treturn nil, errors.New("parent key cannot be empty")\n\t}\n',''),
 ('C07','drop-length-check',A+'pkg/crypto/aead/aead.go','\tif len(data) < aeadCipher.NonceSize() {\n\t\treturn nil, errors.New("data length is shorter than nonce size")\n\t}\n',''),
 ('C07','use-data-on-error',A+'pkg/crypto/aead/aead.go','\tif err != nil {\n\t\treturn d, fmt.Errorf("error decrypting data: %w", err)\n\t}\n\n\treturn d, nil','\tif err != nil && len(d) == 0 {\n\t\treturn d, fmt.Errorf("error decrypting data: %w", err)\n\t}\n\n\treturn d, nil'),
 ('C07','loader-nil-unchecked',A+'session.go','\tif drr == nil {\n\t\treturn nil, errors.New("no data row record found for key")\n\t}\n',''),
 # ---------------- C08
 ('C08','increment-after-unlock',A+'key_cache.go','\tif ok {\n\t\t// take the caller\'s reference before releasing the lock, otherwise a\n\t\t// concurrent eviction could close the key between lookup and increment\n\t\tk = tracked(k)\n\t}\n\n\tc.rw.RUnlock()\n\n\tif ok {\n\t\treturn k, nil\n\t}','\tc.rw.RUnlock()\n\n\tif ok {\n\t\treturn tracked(k), nil\n\t}'),
 ('C08','destroy-on-load',A+'key_cache.go','\tif c.refs.Add(-1) > 0 {\n\t\treturn\n\t}','\tc.refs.Add(-1)\n\n\tif c.refs.Load() > 0 {\n\t\treturn\n\t}'),
 ('C08','evict-closes-raw-key',A+'key_cache.go','\t\tvalue.key.Close()\n\t}\n\n\tif cachePolicy','\t\tvalue.key.CryptoKey.Close()\n\t}\n\n\tif cachePolicy'),
 ('C08','handout-untracked',A+'key_cache.go','\tk, err := c.load(id, loader)\n\tif err != nil {\n\t\treturn nil, err\n\t}\n\n\treturn tracked(k), nil','\tk, err := c.load(id, loader)\n\tif err != nil {\n\t\treturn nil, err\n\t}\n\n\treturn k, nil'),
 ('C08','latest-under-rlock',A+'key_cache.go','func (c *keyCache) GetOrLoadLatest(id string, loader func(KeyMeta) (*internal.CryptoKey, error)) (*cachedCryptoKey, error) {\n\tc.rw.Lock()\n\tdefer c.rw.Unlock()','func (c *keyCache) GetOrLoadLatest(id string, loader func(KeyMeta) (*internal.CryptoKey, error)) (*cachedCryptoKey, error) {\n\tc.rw.RLock()\n\tdefer c.rw.RUnlock()'),
 # ---------------- C09
 ('C09','no-close-of-refused-ik',A+'envelope.go','\t\t// it\'s no good to us now. throw it away\n\t\tik.Close()\n',''),
 ('C09','no-defer-ik-close-decrypt',A+'envelope.go','\tdefer ik.Close()\n\n\treturn decryptRow(ik, drr, e.Crypto)','\treturn decryptRow(ik, drr, e.Crypto)'),
 ('C09','displaced-entry-not-closed',A+'key_cache.go','\t\tif existing.key != e.key {\n\t\t\t// the entry being replaced holds a different key object, release\n\t\t\t// the cache\'s reference to it or it will never be closed\n\t\t\texisting.key.Close()\n\t\t}\n',''),
 ('C09','factory-close-skips-sk-cache',A+'session.go','\treturn f.systemKeys.Close()\n}','\tif f.Config.Policy.CacheSystemKeys && f.Config.Policy.SharedIntermediateKeyCache {\n\t\treturn f.systemKeys.Close()\n\t}\n\n\treturn nil\n}'),
 ('C09','drk-not-closed',A+'envelope.go','\tdefer drk.Close()\n',''),
 ('C09','equiv-explicit-closes',A+'envelope.go','\tdefer ik.Close()\n\n\treturn decryptRow(ik, drr, e.Crypto)','\tout, err := decryptRow(ik, drr, e.Crypto)\n\n\tik.Close()\n\n\treturn out, err'),
 # ---------------- C10
 ('C10','newcryptokey-no-wipe-on-error',A+'internal/key.go','\t\t// the factory only wipes the source on success\n\t\tMemClr(key)\n',''),
 ('C10','drk-wiped-only-on-success',A+'envelope.go','\t\tdefer internal.MemClr(rawDrk)\n\n\t\treturn crypto.Decrypt(drr.Data, rawDrk)','\t\tout, err := crypto.Decrypt(drr.Data, rawDrk)\n\t\tif err != nil {\n\t\t\treturn nil, err\n\t\t}\n\n\t\tinternal.MemClr(rawDrk)\n\n\t\treturn out, nil'),
 ('C10','v1-encryptkey-no-wipe',A+'plugins/aws-v1/kms/aws.go','\tdefer internal.MemClr(dataKey.Plaintext)\n',''),
 ('C10','v2-immediate-wipe',A+'plugins/aws-v2/kms/kms.go','\tdefer internal.MemClr(dataKey.Plaintext)\n\n\t// Encrypt the key with the newly generated data key\n\tencKeyBytes, err := a.crypto.Encrypt(keyBytes, dataKey.Plaintext)\n\tif err != nil {\n\t\treturn nil, fmt.Errorf("error encrypting key: %w", err)\n\t}\n','\t// Encrypt the key with the newly generated data key\n\tencKeyBytes, err := a.crypto.Encrypt(keyBytes, dataKey.Plaintext)\n\tinternal.MemClr(dataKey.Plaintext)\n\n\tif err != nil {\n\t\treturn nil, fmt.Errorf("error encrypting key: %w", err)\n\t}\n'),
 ('C10','ik-buffer-not-handed-over',A+'envelope.go','\treturn internal.NewCryptoKey(e.SecretFactory, ekr.Created, ekr.Revoked, ikBuffer)','\tcp := append([]byte(nil), ikBuffer...)\n\n\treturn internal.NewCryptoKey(e.SecretFactory, ekr.Created, ekr.Revoked, cp)'),
 # ---------------- C11
 ('C11','release-no-broadcast','go/securememory/memguard/secret.go','\tdefer s.c.Broadcast()\n\n\ts.accessCounter--','\ts.accessCounter--'),
 ('C11','access-ignores-closing','go/securememory/protectedmemory/secret.go','\tif s.closing || s.closed {\n\t\treturn errors.WithStack(secretClosedErr)\n\t}','\tif s.closed {\n\t\treturn errors.WithStack(secretClosedErr)\n\t}'),
 ('C11','close-with-one-reader','go/securememory/protectedmemory/secret.go','\t\tif s.accessCounter == 0 {\n\t\t\treturn s.close()\n\t\t}','\t\tif s.accessCounter <= 1 {\n\t\t\treturn s.close()\n\t\t}'),
 ('C11','release-not-deferred','go/securememory/memguard/secret.go','func (s *secret) WithBytes(action func([]byte) error) (err error) {\n\tif err = s.access(); err != nil {\n\t\treturn\n\t}\n\n\tdefer func() {\n\t\tif err2 := s.release(); err2 != nil {\n\t\t\tif err == nil {\n\t\t\t\terr = err2\n\t\t\t\treturn\n\t\t\t}\n\n\t\t\terr = errors.WithMessage(err, err2.Error())\n\n\t\t\treturn\n\t\t}\n\t}()\n\n\treturn action(s.buffer.Bytes())\n}','func (s *secret) WithBytes(action func([]byte) error) (err error) {\n\tif err = s.access(); err != nil {\n\t\treturn\n\t}\n\n\terr = action(s.buffer.Bytes())\n\n\tif err2 := s.release(); err2 != nil {\n\t\tif err == nil {\n\t\t\treturn err2\n\t\t}\n\n\t\treturn errors.WithMessage(err, err2.Error())\n\t}\n\n\treturn err\n}'),
 ('C11','unlocked-isclosed','go/securememory/protectedmemory/secret.go','func (s *secretInternal) isClosed() bool {\n\ts.rw.RLock()\n\tdefer s.rw.RUnlock()\n\n\treturn s.closed','func (s *secretInternal) isClosed() bool {\n\treturn s.closed'),
 ('C11','wipe-after-unlock','go/securememory/protectedmemory/secret.go','\t// Wipe the memory.\n\tcore.Wipe(s.bytes)\n\n\t// Unlock pages locked into memory.\n\tif err := s.mc.Unlock(s.bytes); err != nil {\n\t\treturn err\n\t}\n','\t// Unlock pages locked into memory.\n\tif err := s.mc.Unlock(s.bytes); err != nil {\n\t\treturn err\n\t}\n\n\t// Wipe the memory.\n\tcore.Wipe(s.bytes)\n'),
 # ---------------- C12
 ('C12','ignore-unlock-error','go/securememory/protectedmemory/secret.go','\tif err := s.mc.Unlock(s.bytes); err != nil {\n\t\treturn err\n\t}','\t_ = s.mc.Unlock(s.bytes)'),
 ('C12','lock-failure-no-free','go/securememory/protectedmemory/secret.go','\t\tif err2 := mc.Free(bytes); err2 != nil {\n\t\t\terr = errors.Wrap(err, err2.Error())\n\t\t}\n\n\t\treturn nil, err','\t\treturn nil, err'),
 ('C12','increment-before-protect','go/securememory/memguard/secret.go','\t\tif err := s.mc.Protect(s.buffer.Inner(), memcall.ReadOnly()); err != nil {\n\t\t\t// Shouldn\'t happen but return the err if it does\n\t\t\treturn errors.WithMessage(err, "unable to mark memory as read-only")\n\t\t}\n\t}\n\ts.accessCounter++','\t\ts.accessCounter++\n\t\tif err := s.mc.Protect(s.buffer.Inner(), memcall.ReadOnly()); err != nil {\n\t\t\treturn errors.WithMessage(err, "unable to mark memory as read-only")\n\t\t}\n\t\treturn nil\n\t}\n\ts.accessCounter++'),
 ('C12','new-no-wipe-before-clean','go/securememory/protectedmemory/secret.go','\t\t// The pages already hold a copy of the caller\'s secret, wipe it before they are unlocked and released.\n\t\tcore.Wipe(secret.bytes)\n\n',''),
 ('C12','clean-skips-free-on-unlock-error','go/securememory/internal/memcall/util.go','\tif err = c.Unlock(b); err != nil {\n\t\terr = errors.WithStack(err)\n\t}','\tif err = c.Unlock(b); err != nil {\n\t\treturn errors.WithStack(err)\n\t}'),
 ('C12','close-early-exit-on-closing','go/securememory/protectedmemory/secret.go','\ts.closing = true\n\n\tfor {\n\t\tif s.closed {','\tif s.closing {\n\t\treturn nil\n\t}\n\n\ts.closing = true\n\n\tfor {\n\t\tif s.closed {'),
 # ---------------- C13
 ('C13','condition-on-wrong-attribute',A+'plugins/aws-v2/dynamodb/metastore/metastore.go','\t\tConditionExpression: aws.String("attribute_not_exists(" + partitionKey + ")"),','\t\tConditionExpression: aws.String("attribute_not_exists(" + keyRecord + ")"),'),
 ('C13','v1-no-condition',A+'plugins/aws-v1/persistence/dynamodb.go','\t\tTableName:           aws.String(d.tableName),\n\t\tConditionExpression: aws.String("attribute_not_exists(" + partitionKey + ")"),','\t\tTableName: aws.String(d.tableName),'),
 ('C13','v1-eventually-consistent-query',A+'plugins/aws-v1/persistence/dynamodb.go','\t\tConsistentRead:            aws.Bool(true), // always use strong consistency','\t\tConsistentRead:            aws.Bool(false),'),
 ('C13','memory-overwrite',A+'pkg/persistence/memory.go','\tif _, ok := s.Envelopes[keyID][created]; ok {\n\t\treturn false, nil\n\t}\n',''),
 ('C13','sql-replace-into',A+'pkg/persistence/sql.go','defaultStoreKeyQuery   = "INSERT INTO encryption_key (id, created, key_record) VALUES (?, ?, ?)"','defaultStoreKeyQuery   = "REPLACE INTO encryption_key (id, created, key_record) VALUES (?, ?, ?)"'),
 ('C13','sql-latest-ascending',A+'pkg/persistence/sql.go','ORDER BY created DESC LIMIT 1','ORDER BY created LIMIT 1'),
 ('C13','v2-store-true-on-error',A+'plugins/aws-v2/dynamodb/metastore/metastore.go','\t\tif errors.As(err, &ccfe) {\n\t\t\treturn false, fmt.Errorf','\t\tif errors.As(err, &ccfe) {\n\t\t\treturn true, fmt.Errorf'),
 ('C13','v2-scan-forward',A+'plugins/aws-v2/dynamodb/metastore/metastore.go','\t\tScanIndexForward:          aws.Bool(false), // sorts descending','\t\tScanIndexForward:          aws.Bool(true),'),
 # ---------------- C14
 ('C14','parent-check-greater',A+'envelope.go','\tif ekr != nil && ekr.ParentKeyMeta != nil && sk.Created() != ekr.ParentKeyMeta.Created {','\tif ekr != nil && ekr.ParentKeyMeta != nil && sk.Created() > ekr.ParentKeyMeta.Created {'),
 ('C14','loser-keeps-own-key',A+'envelope.go','\tnewEkr, err := e.mustLoadLatest(ctx, e.partition.IntermediateKeyID())\n\tif err != nil {\n\t\treturn nil, err\n\t}\n\n\treturn e.intermediateKeyFromEKR(sk, newEkr)','\tnewEkr, err := e.mustLoadLatest(ctx, e.partition.IntermediateKeyID())\n\tif err != nil {\n\t\treturn nil, err\n\t}\n\n\t_ = newEkr\n\n\treturn e.generateKey()'),
 ('C14','must-load-allows-nil',A+'envelope.go','\tif ekr == nil {\n\t\treturn nil, errors.New("error loading key from metastore after retry")\n\t}\n\n\treturn ekr, nil','\treturn ekr, nil'),
 # ---------------- C15
 ('C15','get-under-rlock',A+'pkg/cache/cache.go','func (c *cache[K, V]) Get(key K) (V, bool) {\n\tc.mux.Lock()\n\tdefer c.mux.Unlock()','func (c *cache[K, V]) Get(key K) (V, bool) {\n\tc.mux.RLock()\n\tdefer c.mux.RUnlock()'),
 ('C15','evict-only-above-capacity',A+'pkg/cache/cache.go','\tif c.size == c.policy.Capacity() {\n\t\tc.evict()\n\t}','\tif c.size > c.policy.Capacity() {\n\t\tc.evict()\n\t}'),
 ('C15','delete-without-size',A+'pkg/cache/cache.go','\tdelete(c.byKey, key)\n\n\tc.size--\n\n\tc.policy.Remove(item)\n\n\treturn true','\tdelete(c.byKey, key)\n\n\tc.policy.Remove(item)\n\n\treturn true'),
 ('C15','tinylfu-bypass-unregistered',A+'pkg/cache/tlfu.go','\t\t// register the item so Access and Remove can find its eviction list\n\t\tc.admitTo(item, &c.slru)\n\t\treturn','\t\tc.slru.Admit(item)\n\t\treturn'),
 ('C15','sync-evict-no-callback',A+'pkg/cache/cache.go','\t\tc.onEvictCallback(item.key, item.value)\n\n\t\treturn\n\t}\n\n\tlog.Debugf("%s sending evict event','\t\treturn\n\t}\n\n\tlog.Debugf("%s sending evict event'),
 ('C15','close-without-drain',A+'pkg/cache/cache.go','\tfor c.size > 0 {\n\t\tc.evict()\n\t}\n\n\tc.shutdown()','\tc.shutdown()'),
 ('C15','delete-fires-callback',A+'pkg/cache/cache.go','\tdelete(c.byKey, key)\n\n\tc.size--\n\n\tc.policy.Remove(item)\n\n\treturn true','\tc.evictItem(item)\n\n\treturn true'),
 # ---------------- C16
 ('C16','remove-if-not-loop',A+'session_cache.go','\tfor s.accessCounter > 0 {\n\t\ts.cond.Wait()\n\t}','\tif s.accessCounter > 0 {\n\t\ts.cond.Wait()\n\t}'),
 ('C16','increment-outside-lock',A+'session_cache.go','\tc.mu.Lock()\n\tdefer c.mu.Unlock()\n\n\tval, err := c.getOrAdd(id)\n\tif err != nil {\n\t\treturn nil, err\n\t}\n\n\tincrementSharedSessionUsage(val)\n\n\treturn val, nil','\tc.mu.Lock()\n\n\tval, err := c.getOrAdd(id)\n\n\tc.mu.Unlock()\n\n\tif err != nil {\n\t\treturn nil, err\n\t}\n\n\tincrementSharedSessionUsage(val)\n\n\treturn val, nil'),
 ('C16','close-without-broadcast',A+'session_cache.go','\tdefer s.mu.Unlock()\n\tdefer s.cond.Broadcast()\n\n\ts.accessCounter--','\tdefer s.mu.Unlock()\n\n\ts.accessCounter--'),
 ('C16','callback-closes-directly',A+'session_cache.go','\t\tgo v.encryption.(*sharedEncryption).Remove()','\t\tgo v.encryption.(*sharedEncryption).Encryption.Close()'),
 ('C16','holder-close-closes-session',A+'session_cache.go','\ts.accessCounter--\n\n\treturn nil\n}','\ts.accessCounter--\n\n\tif s.accessCounter == 0 {\n\t\treturn s.Encryption.Close()\n\t}\n\n\treturn nil\n}'),
 # ---------------- C17
 ('C17','v2-return-on-crypto-failure',A+'plugins/aws-v2/kms/kms.go','\t\tif err != nil {\n\t\t\tlog.Debugf("error crypto decrypt: %s\\n", err)\n\t\t\tcontinue\n\t\t}','\t\tif err != nil {\n\t\t\treturn nil, fmt.Errorf("error crypto decrypt: %w", err)\n\t\t}'),
 ('C17','v1-worker-drops-result',A+'plugins/aws-v1/kms/aws.go','\t\t\t\tif err != nil {\n\t\t\t\t\treturn\n\t\t\t\t}\n\n\t\t\t\tresults <- encryptionKey{','\t\t\t\tif err != nil || len(encResp.CiphertextBlob) == 0 {\n\t\t\t\t\treturn\n\t\t\t\t}\n\n\t\t\t\tif ctx.Err() != nil {\n\t\t\t\t\treturn\n\t\t\t\t}\n\n\t\t\t\tresults <- encryptionKey{'),
 ('C17','v1-generate-stops-at-first-failure',A+'plugins/aws-v1/kms/aws.go','\t\tif err != nil {\n\t\t\tlog.Debugf("error generating data key in region (%s) trying next region: %s\\n", c.Region, err)\n\t\t\tcontinue\n\t\t}','\t\tif err != nil {\n\t\t\treturn nil, err\n\t\t}'),
 ('C17','v2-envelope-tag-renamed',A+'plugins/aws-v2/kms/kms.go','`json:"kmsKeks"`','`json:"keks"`'),
 ('C17','v2-close-before-wait',A+'plugins/aws-v2/kms/kms.go','\twg.Wait()\n\n\tclose(ch) // Close the channel to signal that all encryption keys have been sent.','\tclose(ch)\n\n\twg.Wait()'),
 # ---------------- C18
 ('C18','revoked-always-serialised',A+'envelope.go','\tRevoked       bool     `json:"Revoked,omitempty"`','\tRevoked       bool     `json:"Revoked"`'),
 ('C18','keymeta-tag-renamed',A+'envelope.go','\tID      string `json:"KeyId"`','\tID      string `json:"KeyID"`'),
 ('C18','sk-id-reordered',A+'partition.go','\treturn fmt.Sprintf("_SK_%s_%s", p.service, p.product)','\treturn fmt.Sprintf("_SK_%s_%s", p.product, p.service)'),
 ('C18','nonce-size-16',A+'pkg/crypto/aead/aes256gcm.go','\tgcmNonceSize = 12','\tgcmNonceSize = 16'),
 ('C18','proto-created-swapped','server/go/pkg/server/server.go','\t\t\t\tCreated: drr.GetKey().GetParentKeyMeta().GetCreated(),','\t\t\t\tCreated: drr.GetKey().GetCreated(),'),
 ('C18','v2-item-attribute-renamed',A+'plugins/aws-v2/dynamodb/metastore/metastore.go','\tKeyRecord *envelope `dynamodbav:"KeyRecord"`','\tKeyRecord *envelope `dynamodbav:"Record"`'),
 # ---------------- C19
 ('C19','decrypt-without-handler-check','server/go/pkg/server/server.go','\tcase *pb.SessionRequest_Decrypt:\n\t\tif s.handler == nil {\n\t\t\treturn UninitializedSessionResponse\n\t\t}\n','\tcase *pb.SessionRequest_Decrypt:\n'),
 ('C19','session-guard-removed','server/go/pkg/server/server.go','\tif h.session == nil {\n\t\t// get-session was rejected, there is nothing to close\n\t\treturn nil\n\t}\n',''),
 ('C19','send-skipped-for-nil','server/go/pkg/server/server.go','\t\tresp := s.handleRequest(stream.Context(), in)\n\t\tif err := stream.Send(resp); err != nil {','\t\tresp := s.handleRequest(stream.Context(), in)\n\t\tif resp == nil {\n\t\t\tcontinue\n\t\t}\n\n\t\tif err := stream.Send(resp); err != nil {'),
 ('C19','second-get-session-allowed','server/go/pkg/server/server.go','\t\tif s.handler != nil {\n\t\t\treturn SessionAlreadyInitializedResponse\n\t\t}\n',''),
 ('C19','direct-proto-field','server/go/pkg/server/server.go','\tdrr := fromProtobufDRR(r.GetDecrypt().GetDataRowRecord())','\tdrr := fromProtobufDRR(r.GetDecrypt().DataRowRecord)'),
 # ---------------- C20
 ('C20','decrypt-bypasses-cache',A+'envelope.go','\tik, err := e.ikCache.GetOrLoad(*drr.Key.ParentKeyMeta, loader)','\tif ekr, _ := e.Metastore.Load(ctx, drr.Key.ParentKeyMeta.ID, drr.Key.ParentKeyMeta.Created); ekr != nil && ekr.Revoked {\n\t\tlog.Debugf("revoked")\n\t}\n\n\tik, err := e.ikCache.GetOrLoad(*drr.Key.ParentKeyMeta, loader)'),
 ('C20','shared-cache-ignores-policy',A+'session.go','\tif config.Policy.CacheIntermediateKeys && config.Policy.SharedIntermediateKeyCache {','\tif config.Policy.SharedIntermediateKeyCache {'),
 ('C20','always-reload',A+'key_cache.go','\tif k, ok := c.getFresh(id); ok {\n\t\treturn tracked(k), nil\n\t}\n\n\tk, err := c.load(id, loader)','\tk, err := c.load(id, loader)'),
 ('C20','per-session-sk-cache',A+'session.go','\tskCache := f.systemKeys\n','\tskCache := keyCacher(newKeyCache(CacheTypeSystemKeys, f.Config.Policy))\n'),
 # ================= behaviour-preserving variants (must stay silent) =================
 ('C01','equiv-extra-debug-line',A+'envelope.go','\tdefer ik.Close()\n\n\t// Note the id doesn\'t mean anything for DRK.','\tdefer ik.Close()\n\n\tlog.Debugf("[EncryptPayload] using intermediate key created at %d", ik.Created())\n\n\t// Note the id doesn\'t mean anything for DRK.'),
 ('C01','equiv-parent-meta-via-local',A+'envelope.go','\treturn &DataRowRecord{\n\t\tKey: &EnvelopeKeyRecord{\n\t\t\tCreated:      drk.Created(),\n\t\t\tEncryptedKey: encBytes,\n\t\t\tParentKeyMeta: &KeyMeta{\n\t\t\t\tCreated: ik.Created(),\n\t\t\t\tID:      e.partition.IntermediateKeyID(),\n\t\t\t},\n\t\t},\n\t\tData: encData,\n\t}, nil','\tparent := &KeyMeta{\n\t\tCreated: ik.Created(),\n\t\tID:      e.partition.IntermediateKeyID(),\n\t}\n\n\treturn &DataRowRecord{\n\t\tKey: &EnvelopeKeyRecord{\n\t\t\tCreated:       drk.Created(),\n\t\t\tEncryptedKey:  encBytes,\n\t\t\tParentKeyMeta: parent,\n\t\t},\n\t\tData: encData,\n\t}, nil'),
 ('C02','equiv-named-error-var',A+'envelope.go','\tsk, err := e.generateKey()\n\tif err != nil {\n\t\treturn nil, err\n\t}\n\n\tswitch success, err2 := e.tryStoreSystemKey(ctx, sk); {','\tsk, genErr := e.generateKey()\n\tif genErr != nil {\n\t\treturn nil, genErr\n\t}\n\n\tswitch success, err2 := e.tryStoreSystemKey(ctx, sk); {'),
 ('C03','equiv-nonce-slice-local',A+'pkg/crypto/aead/aead.go','\tinternal.FillRandom(cipherAndNonce[noncePos:])\n\n\taeadCipher.Seal(cipherAndNonce[:0], cipherAndNonce[noncePos:], data, nil)','\tnonce := cipherAndNonce[noncePos:]\n\tinternal.FillRandom(nonce)\n\n\taeadCipher.Seal(cipherAndNonce[:0], nonce, data, nil)'),
 ('C04','equiv-invalid-local',A+'key_cache.go','\tif c.IsInvalid(key.CryptoKey) {\n\t\treloaded, err := loader(meta)','\tinvalid := c.IsInvalid(key.CryptoKey)\n\tif invalid {\n\t\treloaded, err := loader(meta)'),
 ('C05','equiv-reorder-refresh',A+'key_cache.go','\t\te.key.SetRevoked(k.Revoked())\n\t\te.loadedAt = time.Now()\n','\t\te.loadedAt = time.Now()\n\t\te.key.SetRevoked(k.Revoked())\n'),
 ('C05','equiv-same-version-local',A+'key_cache.go','\tswitch {\n\tcase ok && e.key.Created() == k.Created():','\tsameVersion := ok && e.key.Created() == k.Created()\n\n\tswitch {\n\tcase sameVersion:'),
 ('C06','equiv-valid-local',A+'envelope.go','\tif !e.partition.IsValidIntermediateKeyID(drr.Key.ParentKeyMeta.ID) {\n\t\treturn nil, errors.New("unable to decrypt record")\n\t}','\tif ok := e.partition.IsValidIntermediateKeyID(drr.Key.ParentKeyMeta.ID); !ok {\n\t\treturn nil, errors.New("unable to decrypt record")\n\t}'),
 ('C07','equiv-combined-nil-check',A+'envelope.go','\tif drr.Key == nil {\n\t\treturn nil, errors.New("datarow key record cannot be empty")\n\t}\n\n\tif drr.Key.ParentKeyMeta == nil {\n\t\treturn nil, errors.New("parent key cannot be empty")\n\t}','\tif drr.Key == nil || drr.Key.ParentKeyMeta == nil {\n\t\treturn nil, errors.New("datarow key record and its parent key cannot be empty")\n\t}'),
 ('C07','equiv-length-check-geq',A+'pkg/crypto/aead/aead.go','\tif len(data) < aeadCipher.NonceSize() {\n\t\treturn nil, errors.New("data length is shorter than nonce size")\n\t}\n\n\tnoncePos := len(data) - aeadCipher.NonceSize()','\tif !(len(data) >= aeadCipher.NonceSize()) {\n\t\treturn nil, errors.New("data length is shorter than nonce size")\n\t}\n\n\tnoncePos := len(data) - aeadCipher.NonceSize()'),
 ('C08','equiv-early-return-shape',A+'key_cache.go','\tif ok {\n\t\t// take the caller\'s reference before releasing the lock, otherwise a\n\t\t// concurrent eviction could close the key between lookup and increment\n\t\tk = tracked(k)\n\t}\n\n\tc.rw.RUnlock()\n\n\tif ok {\n\t\treturn k, nil\n\t}','\tif ok {\n\t\t// take the caller\'s reference before releasing the lock, otherwise a\n\t\t// concurrent eviction could close the key between lookup and increment\n\t\tk = tracked(k)\n\t\tc.rw.RUnlock()\n\n\t\treturn k, nil\n\t}\n\n\tc.rw.RUnlock()'),
 ('C08','equiv-close-eq-zero',A+'key_cache.go','\tif c.refs.Add(-1) > 0 {\n\t\treturn\n\t}','\tif remaining := c.refs.Add(-1); remaining > 0 {\n\t\treturn\n\t}'),
 ('C09','equiv-defer-closure',A+'envelope.go','\tdefer drk.Close()\n','\tdefer func() { drk.Close() }()\n'),
 ('C09','equiv-sk-close-reordered',A+'envelope.go','\tswitch success, err2 := e.tryStoreSystemKey(ctx, sk); {\n\tcase success:\n\t\t// New key saved successfully, return it.\n\t\treturn sk, nil\n\tdefault:\n\t\t// it\'s no good to us now. throw it away\n\t\tsk.Close()\n\n\t\tif err2 != nil {\n\t\t\treturn nil, err2\n\t\t}\n\t}','\tswitch success, err2 := e.tryStoreSystemKey(ctx, sk); {\n\tcase success:\n\t\t// New key saved successfully, return it.\n\t\treturn sk, nil\n\tcase err2 != nil:\n\t\tsk.Close()\n\n\t\treturn nil, err2\n\tdefault:\n\t\t// it\'s no good to us now. throw it away\n\t\tsk.Close()\n\t}'),
 ('C10','equiv-explicit-wipes',A+'envelope.go','\t\tdefer internal.MemClr(rawDrk)\n\n\t\treturn crypto.Decrypt(drr.Data, rawDrk)','\t\tout, decErr := crypto.Decrypt(drr.Data, rawDrk)\n\n\t\tinternal.MemClr(rawDrk)\n\n\t\treturn out, decErr'),
 ('C10','equiv-wipe-before-errcheck-v2',A+'plugins/aws-v2/kms/kms.go','\t\tkeyBytes, err := a.crypto.Decrypt(kekEn.EncryptedKey, resp.Plaintext)\n\n\t\t// the data key is no longer needed, wipe it\n\t\tinternal.MemClr(resp.Plaintext)\n\n\t\tif err != nil {\n\t\t\tlog.Debugf("error crypto decrypt: %s\\n", err)\n\t\t\tcontinue\n\t\t}','\t\tkeyBytes, err := a.crypto.Decrypt(kekEn.EncryptedKey, resp.Plaintext)\n\t\tif err != nil {\n\t\t\tinternal.MemClr(resp.Plaintext)\n\t\t\tlog.Debugf("error crypto decrypt: %s\\n", err)\n\n\t\t\tcontinue\n\t\t}\n\n\t\t// the data key is no longer needed, wipe it\n\t\tinternal.MemClr(resp.Plaintext)'),
 ('C11','equiv-close-loop-shape','go/securememory/protectedmemory/secret.go','\tfor {\n\t\tif s.closed {\n\t\t\treturn nil\n\t\t}\n\n\t\tif s.accessCounter == 0 {\n\t\t\treturn s.close()\n\t\t}\n\n\t\ts.c.Wait()\n\t}','\tfor !s.closed {\n\t\tif s.accessCounter == 0 {\n\t\t\treturn s.close()\n\t\t}\n\n\t\ts.c.Wait()\n\t}\n\n\treturn nil'),
 ('C12','equiv-clean-in-createrandom','go/securememory/protectedmemory/secret.go','\t\tif err2 := f.memcall().Unlock(s.bytes); err2 != nil {\n\t\t\terr = errors.Wrap(err, err2.Error())\n\t\t}\n\n\t\tif err2 := f.memcall().Free(s.bytes); err2 != nil {\n\t\t\terr = errors.Wrap(err, err2.Error())\n\t\t}\n\n\t\treturn nil, err','\t\tif err2 := memcall.Clean(f.memcall(), s.bytes); err2 != nil {\n\t\t\terr = errors.Wrap(err, err2.Error())\n\t\t}\n\n\t\treturn nil, err'),
 ('C13','equiv-memory-exists-local',A+'pkg/persistence/memory.go','\tif _, ok := s.Envelopes[keyID][created]; ok {\n\t\treturn false, nil\n\t}','\t_, exists := s.Envelopes[keyID][created]\n\tif exists {\n\t\treturn false, nil\n\t}'),
 ('C13','equiv-condition-via-local',A+'plugins/aws-v2/dynamodb/metastore/metastore.go','\t_, err = d.svc.PutItem(ctx, &dynamodb.PutItemInput{','\tinput := &dynamodb.PutItemInput{'),
 ('C15','equiv-set-full-geq',A+'pkg/cache/cache.go','\tif c.size == c.policy.Capacity() {\n\t\tc.evict()\n\t}','\tif c.size >= c.policy.Capacity() {\n\t\tc.evict()\n\t}'),
 ('C15','equiv-delete-reordered',A+'pkg/cache/cache.go','\tdelete(c.byKey, key)\n\n\tc.size--\n\n\tc.policy.Remove(item)\n\n\treturn true','\tc.policy.Remove(item)\n\n\tdelete(c.byKey, key)\n\n\tc.size--\n\n\treturn true'),
 ('C16','equiv-remove-defer-unlock',A+'session_cache.go','\ts.mu.Lock()\n\n\tfor s.accessCounter > 0 {\n\t\ts.cond.Wait()\n\t}\n\n\ts.Encryption.Close()\n\n\ts.mu.Unlock()','\ts.mu.Lock()\n\tdefer s.mu.Unlock()\n\n\tfor s.accessCounter > 0 {\n\t\ts.cond.Wait()\n\t}\n\n\ts.Encryption.Close()'),
 ('C17','equiv-v2-decrypt-ok-local',A+'plugins/aws-v2/kms/kms.go','\t\tkek, ok := keks[c.Region]\n\t\tif !ok {\n\t\t\tlog.Debugf("no KEK found for region: %s\\n", c.Region)\n\t\t\tcontinue\n\t\t}','\t\tkek, found := keks[c.Region]\n\t\tif !found {\n\t\t\tlog.Debugf("no KEK found for region: %s\\n", c.Region)\n\n\t\t\tcontinue\n\t\t}'),
 ('C19','equiv-handler-local','server/go/pkg/server/server.go','\tcase *pb.SessionRequest_Encrypt:\n\t\tif s.handler == nil {\n\t\t\treturn UninitializedSessionResponse\n\t\t}\n\n\t\treturn s.handler.Encrypt(ctx, in)','\tcase *pb.SessionRequest_Encrypt:\n\t\tif s.handler != nil {\n\t\t\treturn s.handler.Encrypt(ctx, in)\n\t\t}\n\n\t\treturn UninitializedSessionResponse'),
 ('C20','equiv-getorload-shape',A+'key_cache.go','\tif k, ok := c.getFresh(id); ok {\n\t\treturn tracked(k), nil\n\t}\n\n\tk, err := c.load(id, loader)\n\tif err != nil {\n\t\treturn nil, err\n\t}\n\n\treturn tracked(k), nil','\tk, fresh := c.getFresh(id)\n\tif !fresh {\n\t\tvar err error\n\n\t\tk, err = c.load(id, loader)\n\t\tif err != nil {\n\t\t\treturn nil, err\n\t\t}\n\t}\n\n\treturn tracked(k), nil'),
]

def main():
    shutil.rmtree(OUT, ignore_errors=True)
    n = 0
    skipped = []
    for prop, name, rel, old, new in M:
        p = os.path.join(REPO, rel)
        src = open(p).read()
        if src.count(old) != 1:
            skipped.append((prop, name, src.count(old)))
            continue
        dst = src.replace(old, new)
        diff = ''.join(difflib.unified_diff(src.splitlines(True), dst.splitlines(True), 'a/' + rel, 'b/' + rel, n=3))
        d = os.path.join(OUT, prop)
        os.makedirs(d, exist_ok=True)
        open(os.path.join(d, name + '.diff'), 'w').write(diff)
        n += 1
    print(n, 'mutant patches written under', OUT)
    for s in skipped:
        print('SKIPPED (anchor count != 1):', s)

if __name__ == '__main__':
    main()
