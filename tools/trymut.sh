#!/bin/bash
# usage: trymut.sh <props,comma> <file relative to repo> <old> <new>   — applies a textual edit in the scratch worktree
# /tmp/wt_mut (reset to /repo HEAD first), checks it still builds, runs the given checks, prints the verdict lines.
set -u
props=$1; file=$2; old=$3; new=$4
wt=/tmp/wt_mut
git -C $wt checkout -q -- . && git -C $wt reset -q --hard $(git -C /repo rev-parse HEAD)
python3 - "$wt/$file" "$old" "$new" <<'P' || exit 3
import sys
p,old,new=sys.argv[1:4]
s=open(p).read()
if s.count(old)!=1:
    print("MUTATION ANCHOR COUNT",s.count(old)); sys.exit(1)
open(p,'w').write(s.replace(old,new))
P
mod=$(echo $file | sed -E 's#^(go/appencryption|go/securememory|server/go)/.*#\1#')
(cd $wt/$mod && GOWORK=off GOFLAGS=-mod=mod GOPROXY=off go build ./... 2>&1 | head -5) || true
cp /verif/known_findings.txt /tmp/vr_mut/; for p in ${props//,/ }; do
  VERIF_REPO=$wt VERIF_ROOT=/tmp/vr_mut /verif/bin/asherah-verif check $p 2>&1 | grep -E "^\S+: \[|quick:|KNOWN|SELFTEST|ERR" | cut -c1-260
done
