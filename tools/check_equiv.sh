#!/bin/bash
# check_equiv.sh — every behaviour-preserving variant under /verif/equiv must leave ALL checks silent (ad-hoc runner;
# the thorough tier does the same per property in-process). Uses the scratch worktree $VERIF_WT (default /tmp/wt_mut2).
export VERIF_WT=${VERIF_WT:-/tmp/wt_mut2} VERIF_VR=${VERIF_VR:-/tmp/vr_mut2}
mkdir -p /tmp/eq_one
n=0; bad=0
for f in /verif/equiv/*.diff; do
  cp "$f" /tmp/eq_one/patch.diff
  r=$(/verif/tools/tryseed.sh /tmp/eq_one all | grep -v "known-finding\|KNOWN-FINDING")
  n=$((n+1))
  if [ -n "$r" ]; then bad=$((bad+1)); echo "== $(basename $f)"; echo "$r" | cut -c1-260; fi
done
echo "$n variants, $bad with alarms"
