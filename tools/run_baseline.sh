#!/bin/bash
# Runs the repository's pinned baseline suite (guard off; there are no hooks) and prints pass/fail counts.
# usage: run_baseline.sh [outdir]
out=${1:-/tmp/bl}
mkdir -p "$out"
. /w/out/goenv.sh
: > "$out/all.json"
for m in $(cat /w/out/gomods.txt); do
  MF=$(cd /repo/$m && gomodflag)
  (cd /repo/$m && go test $MF -json -vet=off -count=1 -timeout 25m ./...) >> "$out/all.json" 2>"$out/stderr.$(echo $m | tr '/.' '__').log"
done
python3 - "$out/all.json" <<'P'
import json,sys
res={}
for l in open(sys.argv[1]):
    try: e=json.loads(l)
    except Exception: continue
    if e.get('Test') and e.get('Action') in('pass','fail','skip'):
        res[e['Package']+'::'+e['Test']]=e['Action']
b=json.load(open('/root/.vp/BASELINE.json'))
sp=b['stable_pass']
missing=[t for t in sp if res.get(t)!='pass']
print('pass',sum(1 for v in res.values() if v=='pass'),'fail',sum(1 for v in res.values() if v=='fail'))
print('baseline stable_pass',len(sp),'not passing now:',len(missing))
for t in missing: print('  NOTPASS',t,res.get(t))
sys.exit(1 if missing else 0)
P
