#!/usr/bin/env python3
# Re-runs every registered check against every kept seeded change (in the scratch worktree) and refreshes meta.json
# (detected / detected_by_rules / detected_by_own_property). Prints a matrix.
import os,re,json,subprocess,sys
root='/verif/seeded'
rows=[]
for sid in sorted(os.listdir(root)):
    d=f'{root}/{sid}'
    if not os.path.exists(f'{d}/patch.diff'): continue
    if len(sys.argv)>1 and not any(x in sid for x in sys.argv[1:]): continue  # optional filter: substrings of seed ids
    evdir='/tmp/vr_mut/evidence'
    for f in (os.listdir(evdir) if os.path.isdir(evdir) else []):
        os.remove(f'{evdir}/{f}')  # never reuse the previous seed's evidence
    t=subprocess.run(['/verif/tools/tryseed.sh',d,'all'],capture_output=True,text=True,errors='replace')
    if not os.path.isdir(evdir) or len(os.listdir(evdir))<20 or 'panic:' in t.stdout or 'fatal error' in t.stdout+t.stderr:
        print('ERROR: checker did not complete on',sid,(t.stdout+t.stderr)[-300:]); sys.exit(2)
    viol=[l for l in t.stdout.splitlines() if re.match(r'^\S*: \[',l)]
    rules=sorted(set(re.findall(r'\] (C\d+\.[a-z0-9-]+)',' '.join(viol))))
    meta=json.load(open(f'{d}/meta.json'))
    # which properties' checks fail: rerun per property is expensive; derive from rule->property membership via evidence
    props=set()
    evdir='/tmp/vr_mut/evidence'
    for f in os.listdir(evdir):
        e=json.load(open(f'{evdir}/{f}'))
        if e.get('violations',0)>0: props.add(e['property_id'])
    meta.update({'detected':bool(viol),'detected_by_rules':rules,'failing_checks':sorted(props),
                 'detected_by_own_property_check':meta['property'] in props,'violation_lines':[v[:400] for v in viol]})
    json.dump(meta,open(f'{d}/meta.json','w'),indent=1)
    rows.append((sid,meta['property'],'yes' if viol else 'MISSED','own' if meta['property'] in props else '-',','.join(rules),','.join(sorted(props))))
for r in rows: print('%-6s %-4s %-7s %-4s %-60s %s'%r)
print(sum(1 for r in rows if r[2]=='yes'),'/',len(rows),'detected;',sum(1 for r in rows if r[3]=='own'),'by the property\'s own check')
