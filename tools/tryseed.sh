#!/bin/bash
# usage: tryseed.sh <dir with patch.diff> [props,comma|all]  — applies the seeded change in the scratch worktree /tmp/wt_mut
# and runs the checks against it (never touches /repo).
set -u
d=$1; props=${2:-all}
wt=${VERIF_WT:-/tmp/wt_mut}
git -C $wt checkout -q -- . && git -C $wt reset -q --hard $(git -C /repo rev-parse HEAD) && git -C $wt clean -fdq
git -C $wt apply "$d/patch.diff" || { echo "PATCH DOES NOT APPLY"; exit 3; }
cp /verif/known_findings.txt ${VERIF_VR:-/tmp/vr_mut}/
if [ "$props" = all ]; then
  VERIF_REPO=$wt VERIF_ROOT=${VERIF_VR:-/tmp/vr_mut} ${VERIF_BIN:-/verif/bin/asherah-verif} all 2>&1 | grep -E "^\S*: \[|SELFTEST|ERR|panic:" | cut -c1-300
else
  for p in ${props//,/ }; do
    VERIF_REPO=$wt VERIF_ROOT=${VERIF_VR:-/tmp/vr_mut} ${VERIF_BIN:-/verif/bin/asherah-verif} check $p 2>&1 | grep -E "^\S*: \[|quick:|SELFTEST|ERR|panic:" | cut -c1-300
  done
fi
git -C $wt checkout -q -- .
