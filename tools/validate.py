#!/usr/bin/env python3-vt
# validates MANIFEST.json and every evidence file against the schemas
import json,sys,glob,jsonschema
ok=True
m=json.load(open('/verif/MANIFEST.json'))
jsonschema.validate(m,json.load(open('/root/.vp/MANIFEST.schema.json')))
print('MANIFEST.json valid:',len(m['checks']),'checks')
es=json.load(open('/root/.vp/EVIDENCE.schema.json'))
for c in m['checks']:
    try:
        e=json.load(open(c['evidence_file'])); jsonschema.validate(e,es)
        print(' ',c['property_id'],'evidence valid', e['tier'], e['coverage'].get('obligations'),e['coverage'].get('discharged'))
    except Exception as ex:
        ok=False; print(' ',c['property_id'],'EVIDENCE PROBLEM',str(ex)[:200])
sys.exit(0 if ok else 1)
