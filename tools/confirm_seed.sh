#!/bin/bash
# usage: confirm_seed.sh <seed dir (patch.diff, demo/)> 
# Confirms in the scratch worktree /tmp/wt_confirm: demo passes without the change, fails with it; the module builds and
# its existing tests pass with the change. Prints CONFIRMED or the reason it is not.
set -u
d=$(realpath $1)
wt=${VERIF_WT_CONFIRM:-/tmp/wt_confirm}
[ -d $wt ] || git -C /repo worktree add -f $wt HEAD -q
git -C $wt checkout -q -- . && git -C $wt reset -q --hard $(git -C /repo rev-parse HEAD) && git -C $wt clean -fdq
export GOPROXY=off GOSUMDB=off GOTOOLCHAIN=local
demos=$(cd $d/demo && find . -type f | sed 's#^\./##')
[ -n "$demos" ] || { echo "NOT CONFIRMED: no demo files"; exit 1; }
first=$(echo "$demos" | head -1)
case $first in
  go/appencryption/*) mod=go/appencryption; flags="GOFLAGS=" ;;
  go/securememory/*)  mod=go/securememory;  flags="GOWORK=off GOFLAGS=-mod=mod" ;;
  server/go/*)        mod=server/go;        flags="GOWORK=off GOFLAGS=-mod=mod" ;;
  *) echo "NOT CONFIRMED: demo outside known modules: $first"; exit 1 ;;
esac
pkgs=$(for f in $demos; do dirname ${f#$mod/}; done | sort -u | sed 's#^#./#')
tests=$(cat $(for f in $demos; do echo $d/demo/$f; done) | grep -oE '^func (Test[A-Za-z0-9_]+)' | awk '{print $2}' | paste -sd'|')
rundemo() { (cd $wt/$mod && env $flags go test -count=1 -timeout 600s -run "^($tests)\$" $pkgs 2>&1 | tail -15); }
for f in $demos; do mkdir -p $wt/$(dirname $f); cp $d/demo/$f $wt/$f; done
echo "--- demo WITHOUT the change"; out=$(rundemo); echo "$out" | tail -4 | cut -c1-300
echo "$out" | grep -qE "^(FAIL|panic)|--- FAIL" && { echo "NOT CONFIRMED: demo fails on the unchanged tree"; exit 1; }
echo "$out" | grep -q "^ok" || { echo "NOT CONFIRMED: demo did not run on the unchanged tree"; exit 1; }
git -C $wt apply $d/patch.diff || { echo "NOT CONFIRMED: patch does not apply"; exit 1; }
(cd $wt/$mod && env $flags go build ./... 2>&1 | tail -5) ; [ ${PIPESTATUS[0]} -eq 0 ] || true
echo "--- demo WITH the change"; out=$(rundemo); echo "$out" | tail -6 | cut -c1-300
echo "$out" | grep -qE "^(FAIL|panic)|--- FAIL" || { echo "NOT CONFIRMED: demo does not fail with the change"; exit 1; }
for f in $demos; do rm -f $wt/$f; done
echo "--- existing tests WITH the change ($mod)"
skip="-skip TestProtectedMemory_NewSecret_MemLockLimit"
ok=0
for attempt in 1 2 3; do
  out=$(cd $wt/$mod && env $flags go test -count=1 -timeout 900s $skip ./... 2>&1 | grep -vE "no test files" | tail -40)
  if echo "$out" | grep -qE "^(FAIL|panic)|--- FAIL"; then
    echo "attempt $attempt: failures:"; echo "$out" | grep -E "^(--- FAIL|FAIL|panic)" | head -5 | cut -c1-200
  else ok=1; break; fi
done
echo "$out" | tail -4 | cut -c1-200
[ $ok -eq 1 ] || { echo "NOT CONFIRMED: existing tests fail with the change (3 attempts)"; exit 1; }
git -C $wt checkout -q -- . ; git -C $wt clean -fdq
echo CONFIRMED
